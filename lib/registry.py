"""property id -> check function(tier, replay) for everything that is not a plain board-trace check"""
import tablefam

CHECKS = {
    "C18": tablefam.check,
}

------------------------------ MODULE KeysCheck ------------------------------
(* C06: "changing any single component changes the hash".  With the hash being the XOR of the keys selected *)
(* by the position (checked on every trace event), this holds iff every key is non-zero and the keys are     *)
(* pairwise distinct; an e.p. key may depend on the FILE only.  The key table was extracted black-box from   *)
(* probe FENs (empty board, one piece, one right, one e.p. square).  One model state per key.               *)
EXTENDS Integers, Sequences, FiniteSets, TLC, Json, IOUtils

KT == JsonDeserialize(IOEnv.KEYS)
Zero == <<0, 0, 0, 0>>

\* all keys of the position hash, with a name
Keys == [p \in 1 .. 12, s \in 1 .. 64 |-> KT.piece[p][s]]
Named ==
  {<<"piece", p, s, KT.piece[p][s]>> : p \in 1 .. 12, s \in 1 .. 64}
  \cup {<<"right", r, 0, KT.right[r]>> : r \in {"K", "Q", "k", "q"}}
  \cup {<<"ep", f, 0, KT.ep[f]>> : f \in 1 .. 8}
  \cup {<<"side", 0, 0, KT.side>>}
Vals == {k[4] : k \in Named}

VARIABLE k
Init == k \in Named
Next == UNCHANGED k

NonZero == k[4] # Zero \/ (PrintT(<<"BADKEY", "zero key", k>>) /\ FALSE)
\* pairwise distinct: as many different values as names
AllDistinct == Cardinality(Vals) = Cardinality(Named) \/ (PrintT(<<"BADKEY", "two components share a key", Cardinality(Named) - Cardinality(Vals)>>) /\ FALSE)
\* the e.p. key depends on the file only: the probe on rank 3 and the probe on rank 6 agree
EpByFile == \A f \in 1 .. 8 : KT.ep[f] = KT.ep6[f]
\* the pawn hash uses the same keys for pawns, side and e.p. file, and nothing for other pieces and rights
PawnSubset ==
  /\ \A s \in 1 .. 64 : KT.ppiece[1][s] = KT.piece[1][s] /\ KT.ppiece[7][s] = KT.piece[7][s]
  /\ \A p \in (1 .. 12) \ {1, 7} : \A s \in 1 .. 64 : KT.ppiece[p][s] = Zero
  /\ \A r \in {"K", "Q", "k", "q"} : KT.pright[r] = Zero
  /\ \A f \in 1 .. 8 : KT.pep[f] = KT.ep[f] /\ KT.pep6[f] = KT.ep[f]
  /\ KT.pside = KT.side
Structure == (EpByFile /\ PawnSubset) \/ (PrintT(<<"BADKEY", "e.p. key depends on more than the file, or pawn-hash keys are not the stated subset">>) /\ FALSE)
=============================================================================

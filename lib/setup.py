"""MANIFEST.setup_cmd: build everything from files on disk (offline) and validate the specification itself."""
import glob
import os
import subprocess
import sys

import common


def run():
    common.build_harness()
    # every module parses
    bad = 0
    tmp = os.path.join(common.workdir("setup_sany"), "tmp")
    os.makedirs(tmp, exist_ok=True)
    for tla in sorted(glob.glob(os.path.join(common.SPEC, "*.tla"))):
        # (HashTableInd extends the Apalache module, which lives in apalache.jar)
        r = subprocess.run(["java", "-Djava.io.tmpdir=" + tmp, "-cp", common.JARS + ":/opt/veriftools/apalache/lib/apalache.jar", "tla2sany.SANY", tla], cwd=common.SPEC,
                           stdout=subprocess.PIPE, stderr=subprocess.STDOUT, text=True)
        if r.returncode != 0 or "*** Errors" in r.stdout or "Fatal" in r.stdout:
            print("SANY failed on " + tla)
            print(r.stdout[-1500:])
            bad += 1
    if bad:
        return 2
    # the specification against ground truth that does not come from inkayaku
    wd = common.workdir("setup")
    def one(mod):
        swd = os.path.join(wd, mod)
        os.makedirs(swd, exist_ok=True)
        return mod, common.run_tlc(os.path.join(common.SPEC, mod + ".tla"), os.path.join(common.SPEC, mod + ".cfg"), swd, timeout=3000)

    for mod, info in common.pmap(one, ["SelfTest", "SelfTest2"], 2):
        if info["rc"] != 0 or "Error" in info["out"]:
            print(mod + " failed")
            print(info["out"][-3000:])
            return 2
    print("setup ok")
    return 0

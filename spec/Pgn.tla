--------------------------------- MODULE Pgn ---------------------------------
(***************************************************************************)
(* PGN databases in the Lichess export layout (Appendix B.9 of DESIGN.md). *)
(* An abstract game is [tags : Seq(<<name, value>>), moves : Seq([san,     *)
(* ann]), result : token]; ann = "none" or the comment text between the    *)
(* braces.  RenderDb writes the text; the reader must give the abstract    *)
(* games back, whatever the chunk size and read fragmentation.             *)
(***************************************************************************)
EXTENDS San, SequencesExt

Results == {"1-0", "0-1", "1/2-1/2", "*"}

RenderTags(tags) ==
  LET RECURSIVE R(_)
      R(i) == IF i > Len(tags) THEN "" ELSE "[" \o tags[i][1] \o " \"" \o tags[i][2] \o "\"]\n" \o R(i + 1)
  IN R(1)

\* ply i (1-based) of a game whose first move is made by `first` ("w"/"b") in full move `n0`
MoveNo(first, n0, i) == IF first = "w" THEN n0 + (i - 1) \div 2 ELSE n0 + i \div 2
IsWhitePly(first, i) == (first = "w") = (i % 2 = 1)

RenderMoves(moves, first, n0) ==
  LET RECURSIVE R(_)
      R(i) ==
        IF i > Len(moves) THEN ""
        ELSE LET m == moves[i]
                 num == IF IsWhitePly(first, i) THEN ToString(MoveNo(first, n0, i)) \o ". "
                        ELSE IF i = 1 \/ moves[i - 1].ann # "none" THEN ToString(MoveNo(first, n0, i)) \o "... "
                        ELSE ""
                 c == IF m.ann = "none" THEN "" ELSE " {" \o m.ann \o "}"
             IN num \o m.san \o c \o " " \o R(i + 1)
  IN R(1)

RenderGame(g) == RenderTags(g.tags) \o "\n" \o RenderMoves(g.moves, g.first, g.n0) \o g.result \o "\n"

\* games separated by one blank line; `tail` is what follows the last result token ("\n", "" or "\n\n")
RenderDb(games, tail) ==
  LET RECURSIVE R(_)
      R(i) == IF i > Len(games) THEN ""
              ELSE IF i = Len(games)
                   THEN LET t == RenderGame(games[i]) IN SubSeq(t, 1, Len(t) - 1) \o tail
                   ELSE RenderGame(games[i]) \o "\n" \o R(i + 1)
  IN R(1)

\* what the reader must yield for a game: tags as a set of pairs (a map), moves in order with their comments
ItemOf(g) == [tags |-> {g.tags[i] : i \in 1 .. Len(g.tags)}, moves |-> [i \in 1 .. Len(g.moves) |-> <<g.moves[i].san, g.moves[i].ann>>]]
=============================================================================

------------------------------ MODULE CaseGen ------------------------------
(* Spec -> implementation direction: for each (well-formed) root TLC produces the material from which  *)
(* operation scripts are built: the legal moves, the pseudo-legal moves that are NOT legal (pinned      *)
(* piece, king into check), the standard SAN of every legal move, and random legal lines.               *)
EXTENDS San, Json, IOUtils, SequencesExt

Roots == ndJsonDeserialize(IOEnv.ROOTS)

RECURSIVE RandLine(_, _)
Step(p, m, k) == <<Uci(m)>> \o RandLine(Apply(p, m), k - 1)
RandLine(p, k) ==
  IF k = 0 THEN <<>>
  ELSE LET L == Legal(p) IN IF L = {} THEN <<>> ELSE Step(p, RandomElement(L), k)

Gen ==
  [i \in 1 .. Len(Roots) |->
     LET p == PosOfFen(Roots[i].fen)
         L == Legal(p)
         PL == PseudoLegal(p)
     IN [fen |-> Roots[i].fen,
         wf |-> WellFormed(p),
         legal |-> SetToSeq({Uci(m) : m \in L}),
         illegal |-> SetToSeq({Uci(m) : m \in PL \ L}),
         sans |-> SetToSeq({<<Uci(m), San(p, L, m)>> : m \in L}),
         lines |-> <<RandLine(p, 2), RandLine(p, 4), RandLine(p, 7)>>]]

ASSUME JsonSerialize(IOEnv.OUT, Gen)
VARIABLE x
Init == x = 0
Next == UNCHANGED x
=============================================================================

INIT Init
NEXT Next
INVARIANT CellOk
CHECK_DEADLOCK FALSE

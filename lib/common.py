"""Shared machinery of /verif/check: building the harness from /repo's working tree, running it as a
child process (an abnormal exit of the code under test is an observation, not a tool failure), running
TLC (model checking and trace validation), known findings, replay files and evidence files."""
import concurrent.futures as cf
import hashlib
import json
import os
import re
import shutil
import signal
import subprocess
import sys
import time

VERIF = os.path.dirname(os.path.dirname(os.path.abspath(__file__)))
REPO = os.environ.get("VERIF_REPO", "/repo")
SPEC = os.path.join(VERIF, "spec")
WORK = os.path.join(VERIF, "work")
HARNESS = os.path.join(VERIF, "harness")
IKV = os.path.join(HARNESS, "target", "release", "ikv")
JARS = "/opt/veriftools/tla/tla2tools.jar:/opt/veriftools/tla/CommunityModules-deps.jar"
NCPU = 16


class ToolError(Exception):
    """the machinery itself failed (exit 2); never reported as a violation"""


def seed():
    try:
        return int(os.environ.get("VERIF_SEED", "1"))
    except ValueError:
        return 1


def workdir(name):
    d = os.path.join(WORK, name)
    shutil.rmtree(d, ignore_errors=True)
    os.makedirs(d, exist_ok=True)
    return d


def log(*a):
    print(*a, file=sys.stderr, flush=True)


# --------------------------------------------------------------------------- build
def build_harness():
    """always rebuilds from /repo's current working tree (cargo decides what changed)"""
    lock = os.path.join(HARNESS, "Cargo.lock")
    if not os.path.exists(lock):
        shutil.copy(os.path.join(REPO, "Cargo.lock"), lock)
    env = dict(os.environ, CARGO_NET_OFFLINE="true")
    t = time.time()
    r = subprocess.run(["cargo", "build", "--release", "--offline"], cwd=HARNESS, env=env,
                       stdout=subprocess.PIPE, stderr=subprocess.STDOUT, text=True)
    if r.returncode != 0:
        # a lock file from another tree may not fit: refresh once from /repo
        shutil.copy(os.path.join(REPO, "Cargo.lock"), lock)
        r = subprocess.run(["cargo", "build", "--release", "--offline"], cwd=HARNESS, env=env,
                           stdout=subprocess.PIPE, stderr=subprocess.STDOUT, text=True)
    if r.returncode != 0:
        log(r.stdout[-4000:])
        raise ToolError("harness build failed")
    log("harness built in %.1fs" % (time.time() - t))
    return IKV


def build_engine_app():
    """the real UCI binary, built from /repo's workspace manifest into a target dir under /verif"""
    env = dict(os.environ, CARGO_NET_OFFLINE="true",
               RUSTFLAGS="--cfg inkayaku_verif --check-cfg cfg(inkayaku_verif)")
    tdir = os.path.join(HARNESS, "target-app")
    r = subprocess.run(["cargo", "build", "--release", "--offline", "-p", "inkayaku_engine_app",
                        "--target-dir", tdir], cwd=REPO, env=env,
                       stdout=subprocess.PIPE, stderr=subprocess.STDOUT, text=True)
    if r.returncode != 0:
        log(r.stdout[-4000:])
        raise ToolError("engine app build failed")
    return os.path.join(tdir, "release", "inkayaku_engine_app")


# --------------------------------------------------------------------------- harness
def write_ndjson(path, rows):
    with open(path, "w") as f:
        for r in rows:
            f.write(json.dumps(r, separators=(",", ":")) + "\n")


def read_ndjson(path):
    out = []
    with open(path) as f:
        for line in f:
            line = line.strip()
            if line:
                try:
                    out.append(json.loads(line))
                except json.JSONDecodeError:
                    pass  # a line cut short by an aborting process
    return out


SINGLE_EVENT_FAMILIES = {"search", "fen", "uci", "lichess", "pgn"}     # a case emits its (only) event when it is finished


def run_harness(family, cases, wd, tag, prop, timeout=1200, extra=()):
    """Runs `ikv <family> cases trace`.  If the process dies (non-unwinding panic, signal), the death is
    recorded as a `panic` event of the case that was running and the harness is restarted on the
    remaining cases.  Returns the trace path."""
    trace = os.path.join(wd, "trace_%s.ndjson" % tag)
    open(trace, "w").close()
    remaining = list(cases)
    rounds = 0
    while remaining:
        rounds += 1
        cpath = os.path.join(wd, "cases_%s_%d.ndjson" % (tag, rounds))
        tpath = os.path.join(wd, "part_%s_%d.ndjson" % (tag, rounds))
        write_ndjson(cpath, remaining)
        try:
            r = subprocess.run([IKV, family, cpath, tpath] + list(extra), stdout=subprocess.PIPE,
                               stderr=subprocess.PIPE, text=True, timeout=timeout)
            rc, err = r.returncode, r.stderr
        except subprocess.TimeoutExpired:
            rc, err = -999, "harness timeout"
        evs = read_ndjson(tpath) if os.path.exists(tpath) else []
        with open(trace, "a") as f:
            for e in evs:
                f.write(json.dumps(e, separators=(",", ":")) + "\n")
        if rc == 0:
            break
        if rc == 2 and not evs:
            raise ToolError("harness usage error: " + err[-500:])
        # which case was running
        ids = [c.get("id") for c in remaining]
        if family in SINGLE_EVENT_FAMILIES:
            # the case that was running is the one after the last case that reported
            done = ids.index(evs[-1]["c"]) if evs and evs[-1]["c"] in ids else -1
            idx = min(done + 1, len(ids) - 1)
            last = ids[idx]
        else:
            last = evs[-1]["c"] if evs else ids[0]
            idx = ids.index(last) if last in ids else 0
        msg = (err.strip().splitlines() or ["abnormal exit"])[-1][:300]
        with open(trace, "a") as f:
            f.write(json.dumps({"c": last, "ev": "panic", "during": "process (exit %s)" % rc,
                                "msg": msg, "p": prop}) + "\n")
        remaining = remaining[idx + 1:]
        if rounds > 200:
            raise ToolError("harness keeps dying")
    return trace


# --------------------------------------------------------------------------- TLC
def java_cmd(xmx="2g", extra_props=()):
    return ["java", "-XX:+UseSerialGC", "-Xss1g", "-Xmx" + xmx] + list(extra_props) + ["-cp", JARS]


TLC_STATES = re.compile(r"(\d[\d,]*) states generated, (\d[\d,]*) distinct states found")


def run_tlc(module, cfg, wd, env=None, workers=1, xmx="2g", timeout=3600, extra=(), parallel_gc=False,
            props=()):
    """returns dict(rc, out, generated, distinct)"""
    meta = os.path.join(wd, "meta_%s_%d" % (os.path.basename(cfg).replace(".", "_"), os.getpid()))
    tmp = os.path.join(wd, "tmp")
    os.makedirs(tmp, exist_ok=True)
    e = dict(os.environ)
    if env:
        e.update(env)
    cmd = java_cmd(xmx, ["-Djava.io.tmpdir=" + tmp] + list(props))
    if parallel_gc:
        cmd[1] = "-XX:+UseParallelGC"
    cmd += ["tlc2.TLC", "-workers", str(workers), "-metadir", meta, "-cleanup", "-noGenerateSpecTE",
            "-config", cfg] + list(extra) + [module]
    try:
        r = subprocess.run(cmd, cwd=SPEC, env=e, stdout=subprocess.PIPE, stderr=subprocess.STDOUT,
                           text=True, timeout=timeout)
        out, rc = r.stdout, r.returncode
    except subprocess.TimeoutExpired as ex:
        out, rc = (ex.stdout or b"").decode("utf-8", "replace") if isinstance(ex.stdout, bytes) else (ex.stdout or ""), -999
    shutil.rmtree(meta, ignore_errors=True)
    gen = dist = 0
    for m in TLC_STATES.finditer(out):
        gen, dist = int(m.group(1).replace(",", "")), int(m.group(2).replace(",", ""))
    return {"rc": rc, "out": out, "generated": gen, "distinct": dist, "cmd": " ".join(cmd)}


def validate_trace(module, cfg, trace, wd, tag, env=None, timeout=3600):
    """TLC trace validation of one shard; returns (result dict from JsonSerialize, tlc info)"""
    out = os.path.join(wd, "out_%s.json" % tag)
    if os.path.exists(out):
        os.remove(out)
    e = {"TRACE": trace, "OUT": out}
    if env:
        e.update(env)
    swd = os.path.join(wd, "tlc_" + tag)
    os.makedirs(swd, exist_ok=True)
    info = run_tlc(os.path.join(SPEC, module), os.path.join(SPEC, cfg), swd, env=e, timeout=timeout)
    shutil.rmtree(swd, ignore_errors=True)
    if info["rc"] != 0 or not os.path.exists(out):
        tail = "\n".join(info["out"].splitlines()[-40:])
        raise ToolError("TLC failed on shard %s (rc=%s):\n%s" % (tag, info["rc"], tail))
    with open(out) as f:
        res = json.load(f)
    return res, info


def pmap(fn, items, workers=NCPU):
    with cf.ThreadPoolExecutor(max_workers=workers) as ex:
        return list(ex.map(fn, items))


def shard(cases, n, weight=lambda c: 1):
    """greedy balanced split of cases into at most n shards"""
    n = max(1, min(n, len(cases)))
    bins = [[0, []] for _ in range(n)]
    for c in sorted(cases, key=weight, reverse=True):
        b = min(bins, key=lambda x: x[0])
        b[0] += weight(c)
        b[1].append(c)
    return [sorted(b[1], key=lambda c: c.get("id", 0)) for b in bins if b[1]]


# --------------------------------------------------------------------------- findings / replay / evidence
def load_known():
    p = os.path.join(VERIF, "known_findings.json")
    if not os.path.exists(p):
        return []
    with open(p) as f:
        return json.load(f).get("findings", [])


def write_replay(prop, case):
    d = os.path.join(VERIF, "replays", prop)
    os.makedirs(d, exist_ok=True)
    body = json.dumps(case, sort_keys=True)
    h = hashlib.sha1(body.encode()).hexdigest()[:16]
    p = os.path.join(d, h + ".json")
    with open(p, "w") as f:
        f.write(body)
    return p


def write_evidence(prop, tier, level, coverage, wall, violations, assumptions):
    os.makedirs(os.path.join(VERIF, "evidence"), exist_ok=True)
    ev = {"property_id": prop, "tier": tier, "seed": seed(), "level": level, "coverage": coverage,
          "assumptions": assumptions, "wall_s": round(wall, 2), "violations": violations}
    with open(os.path.join(VERIF, "evidence", prop + ".json"), "w") as f:
        json.dump(ev, f, indent=1)
    return ev


class Outcome:
    """collects mismatches of one check run and turns them into VIOLATION / KNOWN-FINDING lines"""

    def __init__(self, prop):
        self.prop = prop
        self.violations = []   # (case, note)
        self.known = {}        # finding id -> count
        self.other = []        # mismatches attributed to other properties (reported, not failing)

    def add(self, case, note, matcher=None):
        p = note.get("p", self.prop)
        if p != self.prop:
            self.other.append((case, note))
            return
        for k in load_known():
            if k.get("property") == self.prop and k.get("status", "open") == "open" and matcher and matcher(k, case, note):
                self.known[k["id"]] = self.known.get(k["id"], 0) + 1
                return
        self.violations.append((case, note))

    def finish(self):
        for k in load_known():
            if k.get("id") in self.known:
                print("KNOWN-FINDING: property=%s %s (seen %d times in this run)" % (self.prop, k["what"], self.known[k["id"]]))
        seen = set()
        for case, note in self.other[:5]:
            log("note: mismatch attributed to %s (not this check): %s" % (note.get("p"), json.dumps(note)[:300]))
        for case, note in self.violations:
            rp = write_replay(self.prop, dict(case, property=self.prop, note=note))
            if rp in seen:
                continue
            seen.add(rp)
            if len(seen) <= 10:
                print("VIOLATION property=%s replay=%s" % (self.prop, rp))
                log("  " + json.dumps(note)[:600])
        sys.stdout.flush()
        return 1 if self.violations else 0

----------------------------- MODULE EngineTrace -----------------------------
(***************************************************************************)
(* The OBSERVABLE protocol of the UCI engine (the level at which C07, C09  *)
(* and C16 are stated) and its trace validator.  The state is what a GUI   *)
(* can know: the position set by the last accepted `position` command, the *)
(* parameters of the running `go`, what the engine has reported so far in  *)
(* this search.  Actions are the messages on the two channels:             *)
(*   InPosition, InGo, InOther (stop / isready / ucinewgame / debug / quit),*)
(*   OutInfo, OutBestMove, OutOther, ProbeFen, ProbeFresh, Timeout, End.   *)
(* The protocol is deterministic given the logged messages, so a recorded  *)
(* session (in-process Engine<CommandUciTx> or stdin/stdout of the real    *)
(* binary, raw lines parsed HERE by UciOut) has one successor per line;    *)
(* mismatches are recorded with the expected value and validation goes on. *)
(* Engine.tla (the code-shaped two-thread model) is checked by TLC to      *)
(* satisfy the same OneAnswer / AnswerLegal / BoardRestored statements for *)
(* all interleavings; here they are evaluated on what the real code did.   *)
(***************************************************************************)
EXTENDS UciOut, Json, IOUtils, TLC

Rec == ndJsonDeserialize(IOEnv.TRACE)

VARIABLES
  l,          \* next line
  sess,       \* id of the current session
  mode,       \* "idle" | "searching" | "dead" (after a timeout)
  gamePos,    \* position of the last accepted position command (initially the start position)
  go,         \* parameters of the running / last go
  lastDepth, lastNodes, lastTime,   \* numerals last reported in this search ("none" before the first)
  lastPV,     \* last reported principal variation of this search (<<>> if none)
  lastScore,  \* last reported score of this search
  doneScore,  \* last reported score of the most recently finished search
  nsearch,    \* number of go commands so far in this session
  expect,     \* replies the GUI-side thread still owes, in order (uci -> id, id, uciok; isready -> readyok; register -> 2 x registration)
  bad, nbad, ntr
vars == <<l, sess, mode, gamePos, go, lastDepth, lastNodes, lastTime, lastPV, lastScore, doneScore, nsearch, expect, bad, nbad, ntr>>

Ev == Rec[l]
StartPos == PosOfFen("rnbqkbnr/pppppppp/8/8/8/8/PPPPPPPP/RNBQKBNR w KQkq - 0 1")
NoGo == [searchmoves |-> <<>>, limited |-> FALSE, stopped |-> FALSE, trunc |-> FALSE]
ToS(seq) == {seq[i] : i \in 1 .. Len(seq)}
UciSet(S) == {Uci(m) : m \in S}

Fails(chks) == SelectSeq(chks, LAMBDA c : ~c[1])
Record(chks) ==
  LET f == Fails(chks)
      ns == [i \in 1 .. Len(f) |-> [c |-> Ev.c, l |-> l, ev |-> Ev.ev, p |-> f[i][2], w |-> f[i][3], x |-> f[i][4]]]
  IN nbad' = nbad + Len(ns) /\ bad' = IF Len(bad) >= 60 THEN bad ELSE bad \o ns
NoRecord == UNCHANGED <<bad, nbad>>

\* play a list of UCI move strings; ok = every one denotes a legal move in turn
RECURSIVE PlayLine(_, _, _)
PlayLine(p, line, i) ==
  IF i > Len(line) THEN [ok |-> TRUE, pos |-> p, at |-> 0]
  ELSE LET c == {m \in Legal(p) : Uci(m) = line[i]}
       IN IF c = {} THEN [ok |-> FALSE, pos |-> p, at |-> i]
          ELSE PlayLine(Apply(p, CHOOSE m \in c : TRUE), line, i + 1)

------------------------------------------------------------------------------
Start ==
  /\ Ev.ev = "start"
  /\ sess' = Ev.c /\ mode' = "idle" /\ gamePos' = StartPos /\ go' = NoGo
  /\ lastDepth' = "none" /\ lastNodes' = "none" /\ lastTime' = "none" /\ lastPV' = <<>>
  /\ lastScore' = NoScore /\ doneScore' = NoScore /\ nsearch' = 0 /\ expect' = <<>>
  /\ UNCHANGED <<ntr>> /\ NoRecord

InPosition ==
  /\ Ev.ev = "in" /\ Ev.cmd = "position"
  /\ LET pf == ParseFen(Ev.fen)
         r == PlayLine(pf.pos, Ev.moves, 1)
     \* a rejected move list leaves the position as it was; a position command that arrives while a search is running is DROPPED
     \* (search.rs, check_messages: "Ignore during go") - the recorders send one only into searches that cannot end by themselves
     IN gamePos' = IF pf.ok /\ r.ok /\ mode # "searching" THEN r.pos ELSE gamePos
  /\ NoRecord
  /\ UNCHANGED <<sess, mode, go, lastDepth, lastNodes, lastTime, lastPV, lastScore, doneScore, nsearch, expect, ntr>>

InGo ==
  /\ Ev.ev = "in" /\ Ev.cmd = "go"
  /\ mode' = IF mode = "dead" THEN "dead" ELSE "searching"
  /\ go' = [searchmoves |-> Ev.searchmoves, limited |-> Ev.limited, stopped |-> FALSE, trunc |-> FALSE]
  /\ lastDepth' = "none" /\ lastNodes' = "none" /\ lastTime' = "none" /\ lastPV' = <<>> /\ lastScore' = NoScore
  /\ nsearch' = nsearch + 1
  /\ Record(<< <<mode # "searching", "C07", "harness sent go during a search (ill-behaved GUI)", "idle">> >>)
  /\ UNCHANGED <<sess, gamePos, doneScore, expect, ntr>>

Owed(cmd) == CASE cmd = "uci" -> <<"id", "id", "uciok">>
                 [] cmd = "isready" -> <<"readyok">>
                 [] cmd = "register" -> <<"registration", "registration">>
                 [] OTHER -> <<>>
InOther ==
  /\ Ev.ev = "in" /\ Ev.cmd \in {"stop", "isready", "ucinewgame", "debug", "quit", "uci", "ponderhit", "register", "registerlater"}
  /\ go' = IF Ev.cmd \in {"stop", "quit"} /\ mode = "searching" THEN [go EXCEPT !.stopped = TRUE] ELSE go
  /\ expect' = expect \o Owed(Ev.cmd)
  /\ NoRecord
  /\ UNCHANGED <<sess, mode, gamePos, lastDepth, lastNodes, lastTime, lastPV, lastScore, doneScore, nsearch, ntr>>

\* the message carried by an out event: structured (in-process) or parsed from the raw line (real binary)
Msg == IF "raw" \in DOMAIN Ev THEN ParseEngineLine(Ev.raw) ELSE Ev.m

Mono(prev, cur) == prev = "none" \/ cur = "none" \/ NumLE(prev, cur)
Keep(prev, cur) == IF cur = "none" THEN prev ELSE cur

OutMalformed ==
  /\ Ev.ev = "out" /\ ~Msg.ok
  /\ Record(<< <<FALSE, "C16", "not a valid engine-to-GUI line: " \o Ev.raw, "UCI syntax">> >>)
  /\ UNCHANGED <<sess, mode, gamePos, go, lastDepth, lastNodes, lastTime, lastPV, lastScore, doneScore, nsearch, expect, ntr>>

OutInfo ==
  /\ Ev.ev = "out" /\ Msg.ok /\ Msg.kind = "info"
  /\ LET m == Msg
         line == PlayLine(gamePos, m.pv, 1)
     IN /\ Record(
             << <<mode # "idle" \/ ~m.haspv, "C16", "search output while no search is running", "idle">>,
                <<Mono(lastDepth, m.num["depth"]), "C16", "depth decreased within a search", lastDepth>>,
                <<Mono(lastNodes, m.num["nodes"]), "C16", "nodes decreased within a search", lastNodes>>,
                <<Mono(lastTime, m.num["time"]), "C16", "time decreased within a search", lastTime>>,
                <<m.haspv => line.ok, "C16", "principal variation is not a legal line from the searched position: " \o ToString(m.pv),
                  "move " \o ToString(line.at) \o " illegal">>,
                \* an interrupted iteration reports the depth of the last completed one again: what it reports must still be that iteration's result
                <<(m.haspv /\ lastPV # <<>> /\ m.num["depth"] # "none" /\ m.num["depth"] = lastDepth) => (m.pv = lastPV /\ (m.score.kind = "none" \/ m.score = lastScore)), "C09",
                  "a second report for depth " \o ToString(lastDepth) \o " differs from the first (" \o ToString(m.pv) \o "): the result of an interrupted search must be that of the last completed iteration",
                  ToString(lastPV)>>,
                <<m.num["hashfull"] = "none" \/ NumLE(m.num["hashfull"], "1000"), "C18", "hashfull above 1000 permille", "<= 1000">> >>)
        /\ lastDepth' = Keep(lastDepth, m.num["depth"])
        /\ lastNodes' = Keep(lastNodes, m.num["nodes"])
        /\ lastTime' = Keep(lastTime, m.num["time"])
        /\ lastPV' = IF m.haspv THEN m.pv ELSE lastPV
        /\ lastScore' = IF m.score.kind # "none" THEN m.score ELSE lastScore
  /\ UNCHANGED <<sess, mode, gamePos, go, doneScore, nsearch, expect, ntr>>

OutBestMove ==
  /\ Ev.ev = "out" /\ Msg.ok /\ Msg.kind = "bestmove"
  /\ LET m == Msg
         L == Legal(gamePos)
         U == UciSet(L)
         sm == ToS(go.searchmoves)
         mustMove == L # {} /\ (sm = {} \/ sm \cap U # {})
     IN /\ Record(
             << <<mode = "searching", "C07", "bestmove without a pending go (more than one answer)", "exactly one bestmove per go">>,
                <<mustMove => m.best \in U, "C07", "bestmove " \o m.best \o " is not a legal move of the position given by the last position command",
                  ToString(U)>>,
                <<(mustMove /\ sm # {}) => m.best \in sm, "C07", "bestmove " \o m.best \o " is not one of searchmoves", ToString(sm \cap U)>>,
                <<L = {} => m.best = "none", "C07", "position without legal move must be answered with the null move", "none">>,
                <<(mustMove /\ mode = "searching" /\ ~go.trunc) => lastPV # <<>>, "C16", "bestmove announced although no principal variation was reported in this search", "pv">>,
                <<lastPV # <<>> => m.best = lastPV[1], "C16", "bestmove is not the first move of the last reported pv " \o ToString(lastPV), ToString(lastPV)>>,
                <<go.trunc \/ m.ponder = (IF Len(lastPV) >= 2 THEN lastPV[2] ELSE "none"), "C16",
                  "ponder move " \o m.ponder \o " is not the second move of the last reported pv", IF Len(lastPV) >= 2 THEN lastPV[2] ELSE "none">> >>)
        /\ ntr' = IF go.limited \/ go.stopped \/ go.searchmoves # <<>> \/ nsearch > 1 THEN ntr \cup {l} ELSE ntr
  /\ mode' = IF mode = "dead" THEN "dead" ELSE "idle"
  /\ doneScore' = lastScore
  /\ UNCHANGED <<sess, gamePos, go, lastDepth, lastNodes, lastTime, lastPV, lastScore, nsearch, expect>>

\* replies of the GUI-side thread (beyond the listed properties: tagged X-protocol): exactly the owed ones, in order
OutOther ==
  /\ Ev.ev = "out" /\ Msg.ok /\ Msg.kind \notin {"info", "bestmove"}
  /\ LET k == Msg.kind
         ok == expect # <<>> /\ Head(expect) = k
     IN /\ Record(<< <<ok, "X-protocol", "unsolicited or out-of-order reply: " \o k, ToString(expect)>> >>)
        /\ expect' = IF ok THEN Tail(expect) ELSE expect
  /\ UNCHANGED <<sess, mode, gamePos, go, lastDepth, lastNodes, lastTime, lastPV, lastScore, doneScore, nsearch, ntr>>

\* hook H5(b): the position the idle search thread holds
ProbeFen ==
  /\ Ev.ev = "probe" /\ Ev.what = "fen"
  /\ Record(<< <<Ev.fen = RenderFen(gamePos), "C09", "the engine's position after the search differs from the position it was given: " \o Ev.fen,
                 RenderFen(gamePos)>> >>)
  /\ UNCHANGED <<sess, mode, gamePos, go, lastDepth, lastNodes, lastTime, lastPV, lastScore, doneScore, nsearch, expect, ntr>>

\* depth-1 score of a fresh engine given the same position: must equal the score of the search that just ended
ProbeFresh ==
  /\ Ev.ev = "probe" /\ Ev.what = "fresh"
  /\ Record(<< <<Ev.score.kind = doneScore.kind /\ Ev.score.v = doneScore.v, "C09",
                 "depth-1 score after an interrupted search differs from a fresh engine's: " \o ToString(doneScore), ToString(Ev.score)>> >>)
  /\ UNCHANGED <<sess, mode, gamePos, go, lastDepth, lastNodes, lastTime, lastPV, lastScore, doneScore, nsearch, expect, ntr>>

\* the watchdog expired, or the engine process / search thread died
Timeout ==
  /\ Ev.ev = "timeout"
  /\ Record(<< <<FALSE, "C07", "no bestmove: " \o Ev.why, "exactly one bestmove per go">>,
               \* C09: a search interrupted by stop or quit still answers with exactly one bestmove
               <<~(mode = "searching" /\ go.stopped), "C09", "an interrupted search (stop / quit) was not answered: " \o Ev.why, "exactly one bestmove">> >>)
  /\ mode' = "dead"
  /\ UNCHANGED <<sess, gamePos, go, lastDepth, lastNodes, lastTime, lastPV, lastScore, doneScore, nsearch, expect, ntr>>

\* thousands of short searches on one engine, recorded compactly: for this position, every distinct answer that occurred
Burst ==
  /\ Ev.ev = "burst"
  /\ LET pf == ParseFen(Ev.fen)
         r == PlayLine(pf.pos, Ev.moves, 1)
         U == UciSet(Legal(r.pos))
         A == Ev.answers
         wrong == {i \in 1 .. Len(A) : ~(IF U = {} THEN A[i][1] = "none" ELSE A[i][1] \in U)}
         incons == {i \in 1 .. Len(A) : A[i][2] # "none" /\ A[i][1] # A[i][2]}
     IN /\ Record(
            << <<pf.ok /\ r.ok, "C07", "machinery: burst position is not legal", "">>,
               <<wrong = {}, "C07", "in a long series of searches on one engine, some go was answered with a move that is not legal (or with the null move): " \o
                  ToString({A[i] : i \in wrong}), ToString(U)>>,
               <<incons = {}, "C16", "bestmove differs from the first move of the last reported pv: " \o ToString({A[i] : i \in incons}), "">> >>)
        /\ gamePos' = r.pos
        /\ ntr' = ntr \cup {l}
  /\ UNCHANGED <<sess, mode, go, lastDepth, lastNodes, lastTime, lastPV, lastScore, doneScore, nsearch, expect>>

\* the harness process died (non-unwinding panic / signal) while this session was running
Panic ==
  /\ Ev.ev = "panic"
  /\ Record(<< <<FALSE, Ev.p, "engine process aborted during " \o Ev.during \o ": " \o Ev.msg, "no abort">> >>)
  /\ mode' = "dead"
  /\ UNCHANGED <<sess, gamePos, go, lastDepth, lastNodes, lastTime, lastPV, lastScore, doneScore, nsearch, expect, ntr>>

\* the recorder stopped logging a flood of info lines (they were counted, not judged); the pv of the last accepted
\* iteration may have been among them, so the pv-consistency of the coming bestmove is not judged either
Truncated ==
  /\ Ev.ev = "truncated"
  /\ lastPV' = <<>> /\ go' = [go EXCEPT !.trunc = TRUE]
  /\ NoRecord
  /\ UNCHANGED <<sess, mode, gamePos, lastDepth, lastNodes, lastTime, lastScore, doneScore, nsearch, expect, ntr>>

End ==
  /\ Ev.ev = "end"
  /\ Record(<< <<mode # "searching", "C07", "session ended with an unanswered go", "bestmove">>,
               <<~(mode = "searching" /\ go.stopped), "C09", "session ended (quit) with an interrupted search unanswered", "exactly one bestmove">>,
               <<expect = <<>> \/ mode = "dead", "X-protocol", "session ended with replies still owed: " \o ToString(expect), "<<>>">> >>)
  /\ UNCHANGED <<sess, mode, gamePos, go, lastDepth, lastNodes, lastTime, lastPV, lastScore, doneScore, nsearch, expect, ntr>>

Next ==
  /\ l <= Len(Rec)
  /\ l' = l + 1
  /\ \/ Start \/ InPosition \/ InGo \/ InOther \/ OutMalformed \/ OutInfo \/ OutBestMove \/ OutOther
     \/ ProbeFen \/ ProbeFresh \/ Timeout \/ End \/ Panic \/ Truncated \/ Burst

Init ==
  /\ l = 1 /\ sess = 0 /\ mode = "idle" /\ gamePos = StartPos /\ go = NoGo
  /\ lastDepth = "none" /\ lastNodes = "none" /\ lastTime = "none" /\ lastPV = <<>>
  /\ lastScore = NoScore /\ doneScore = NoScore /\ nsearch = 0 /\ expect = <<>>
  /\ bad = <<>> /\ nbad = 0 /\ ntr = {}
Spec == Init /\ [][Next]_vars

Report == (l = Len(Rec) + 1) => JsonSerialize(IOEnv.OUT, [lines |-> Len(Rec), nbad |-> nbad, bad |-> bad, ntr |-> ntr])
Consumed == \/ TLCGet("stats").diameter - 1 = Len(Rec)
            \/ PrintT(<<"NOT CONSUMED", TLCGet("stats").diameter - 1, Len(Rec)>>) /\ FALSE
=============================================================================

//! `board` family: drive inkayaku_board::Bitboard through its public API and record every call.
//!
//! Case: {"id": n, "fen": "...", "ops": [ {"op": "gen"} | {"op":"make","uci":..} | {"op":"unmake"} |
//!        {"op":"chk"} | {"op":"reload"} | {"op":"bare_all"} | {"op":"walk_uci","plies":n,"seed":s} | {"op":"dfs","depth":d} | {"op":"walk","plies":n,"seed":s} | {"op":"line","plies":n,"seed":s} |
//!        {"op":"find_uci","s":..} | {"op":"make_uci","s":..} | {"op":"make_all_uci","list":[..]} |
//!        {"op":"uci_to_pgn","s":..} | {"op":"pgn_to_bb","s":..} | {"op":"uci_batch"} | {"op":"san_all"} |
//!        {"op":"perft","depth":d} ] }
use inkayaku_board::constants::{BISHOP, KING, KNIGHT, PAWN, QUEEN, ROOK};
use inkayaku_board::{Bitboard, Move, MoveFromUciError};
use inkayaku_core::constants::Color;
use inkayaku_core::fen::Fen;
use rand::rngs::StdRng;
use rand::{Rng, SeedableRng};
use serde_json::{json, Value};

use crate::util::{guarded, limbs, quiet_panics, read_cases, str_of, u64_of, word_squares, Out};

pub fn snap(b: &Bitboard) -> Value {
    let kinds = [PAWN, KNIGHT, BISHOP, ROOK, QUEEN, KING];
    let mut occ = Vec::new();
    for k in kinds {
        occ.push(word_squares(b.white.occupancy(k)));
    }
    for k in kinds {
        occ.push(word_squares(b.black.occupancy(k)));
    }
    json!({
        "fen": Fen::from(b).fen,
        "occ": occ,
        "h": limbs(b.calculate_zobrist_hash()),
        "ph": limbs(b.calculate_zobrist_pawn_hash()),
        "ply": b.ply_clock(),
    })
}

fn ucis(moves: &[Move]) -> Vec<String> {
    moves.iter().map(Move::to_uci_string).collect()
}

struct Ctx<'a> {
    out: &'a mut Out,
    id: u64,
    board: Bitboard,
    made: Vec<Move>,
    fen: String,
}

struct CasePanic(String, String);

type R = Result<(), CasePanic>;

macro_rules! g {
    ($during:expr, $e:expr) => {
        guarded(|| $e).map_err(|m| CasePanic($during.to_string(), m))?
    };
}

impl<'a> Ctx<'a> {
    fn gen(&mut self) -> R {
        let id = self.id;
        let b = &mut self.board;
        let legal = g!("generate_legal_moves", ucis(&b.generate_legal_moves()));
        // the filter the search and perft use: buffer variant, then make / is_valid / unmake
        let pf = g!("generate_pseudo_legal_moves+filter", {
            let mut buf = Vec::new();
            b.generate_pseudo_legal_moves_with_buffer(&mut buf);
            let mut v = Vec::new();
            for mv in buf {
                b.make(mv);
                let ok = b.is_valid();
                b.unmake(mv);
                if ok {
                    v.push(mv.to_uci_string());
                }
            }
            v
        });
        let nq = g!("generate_pseudo_legal_non_quiescent_moves+filter", {
            let raw = b.generate_pseudo_legal_non_quiescent_moves();
            let mut v = Vec::new();
            for mv in raw {
                if b.is_move_legal(mv) {
                    v.push(mv.to_uci_string());
                }
            }
            v
        });
        let chk = g!("is_in_check", json!([b.is_in_check(&Color::WHITE), b.is_in_check(&Color::BLACK), b.is_current_in_check()]));
        let valid = g!("is_valid", b.is_valid());
        let anylegal = g!("is_any_move_legal", { let pl = b.generate_pseudo_legal_moves(); b.is_any_move_legal(&pl) });
        let s = g!("snapshot", snap(b));
        self.out.emit(&json!({"c": id, "ev": "gen", "legal": legal, "pf": pf, "nq": nq, "chk": chk, "valid": valid, "anylegal": anylegal, "snap": s}));
        Ok(())
    }

    fn make(&mut self, mv: Move) -> R {
        let id = self.id;
        let b = &mut self.board;
        let (d, pd) = g!("zobrist_xor", Bitboard::zobrist_xor(mv));
        g!("make", b.make(mv));
        self.made.push(mv);
        let b = &mut self.board;
        let valid = g!("is_valid", b.is_valid());
        let chk = g!("is_in_check", json!([b.is_in_check(&Color::WHITE), b.is_in_check(&Color::BLACK), b.is_current_in_check()]));
        let s = g!("snapshot", snap(b));
        // the move record as the API exposes it (MoveStructs): moved piece, captured piece, promotion piece, flags
        let ms = inkayaku_board::MoveStructs::from(mv);
        let desc = json!({"moved": ms.from_piece.fen.to_string(), "captured": ms.to_piece.map_or("-".to_string(), |p| p.fen.to_string()),
                          "promo": ms.promote_to.map_or("-".to_string(), |p| p.fen.to_string()), "from": ms.from_square.fen, "to": ms.to_square.fen,
                          "castle": mv.is_castle_move(), "ep": mv.is_en_passant_attack(), "attack": mv.is_attack(), "reset": mv.is_halfmove_reset()});
        self.out.emit(&json!({"c": id, "ev": "make", "uci": mv.to_uci_string(), "d": limbs(d), "pd": limbs(pd), "valid": valid, "chk": chk, "mv": desc, "snap": s}));
        Ok(())
    }

    fn unmake(&mut self) -> R {
        let id = self.id;
        if let Some(mv) = self.made.pop() {
            let b = &mut self.board;
            g!("unmake", b.unmake(mv));
            // the same queries again on the restored position (whatever the board remembered about the successor must be gone)
            let chk = g!("is_in_check", json!([b.is_in_check(&Color::WHITE), b.is_in_check(&Color::BLACK), b.is_current_in_check()]));
            let s = g!("snapshot", snap(b));
            self.out.emit(&json!({"c": id, "ev": "unmake", "chk": chk, "snap": s}));
        }
        Ok(())
    }

    fn visit(&mut self, mode: &str) -> R {
        if mode != "san" {
            self.gen()?;
        }
        if mode != "gen" {
            self.san_all()?;
        }
        Ok(())
    }

    fn dfs(&mut self, depth: u64, mode: &str) -> R {
        self.visit(mode)?;
        if depth == 0 {
            return Ok(());
        }
        let moves = g!("generate_pseudo_legal_moves", self.board.generate_pseudo_legal_moves());
        for mv in moves {
            self.make(mv)?;
            let valid = g!("is_valid", self.board.is_valid());
            if valid {
                self.dfs(depth - 1, mode)?;
            }
            self.unmake()?;
        }
        Ok(())
    }

    fn walk(&mut self, plies: u64, seed: u64, unmake_after: bool, mode: &str) -> R {
        let mut rng = StdRng::seed_from_u64(seed);
        let mut n = 0;
        for _ in 0..plies {
            self.visit(mode)?;
            let legal = g!("generate_legal_moves", self.board.generate_legal_moves());
            if legal.is_empty() {
                break;
            }
            let mv = legal[rng.gen_range(0..legal.len())];
            self.make(mv)?;
            n += 1;
        }
        self.visit(mode)?;
        if unmake_after {
            for _ in 0..n {
                self.unmake()?;
            }
        }
        Ok(())
    }

    fn san_all(&mut self) -> R {
        let id = self.id;
        let legal = g!("generate_legal_moves", self.board.generate_legal_moves());
        let mut rows = Vec::new();
        for mv in legal {
            let u = mv.to_uci_string();
            let san = g!("uci_to_pgn", self.board.uci_to_pgn(&u));
            let (san_s, back) = match san {
                Ok(s) => {
                    let b = g!("pgn_to_bb", self.board.pgn_to_bb(&s));
                    (s, b.map(|m| m.to_uci_string()).unwrap_or_else(|_| "err".to_string()))
                }
                Err(e) => (format!("err:{}", Self::err_name(&e)), "".to_string()),
            };
            rows.push(json!([u, san_s, back]));
        }
        let sn = g!("snapshot", snap(&self.board));
        self.out.emit(&json!({"c": id, "ev": "san_all", "rows": rows, "snap": sn}));
        Ok(())
    }

    fn err_name(e: &MoveFromUciError) -> &'static str {
        match e {
            MoveFromUciError::MoveDoesNotExist(_) => "MoveDoesNotExist",
            MoveFromUciError::MoveIsNotValid(_) => "MoveIsNotValid",
        }
    }

    fn op(&mut self, op: &Value) -> R {
        let id = self.id;
        match str_of(op, "op").as_str() {
            "gen" => self.gen(),
            "make" => {
                let uci = str_of(op, "uci");
                let moves = g!("generate_pseudo_legal_moves", self.board.generate_pseudo_legal_moves());
                match moves.into_iter().find(|m| m.to_uci_string() == uci) {
                    Some(mv) => self.make(mv),
                    None => {
                        self.out.emit(&json!({"c": id, "ev": "make_missing", "uci": uci}));
                        Ok(())
                    }
                }
            }
            // only the check / validity queries (cheap: used for systematic attacker geometry)
            "chk" => {
                let b = &mut self.board;
                let chk = g!("is_in_check", json!([b.is_in_check(&Color::WHITE), b.is_in_check(&Color::BLACK), b.is_current_in_check()]));
                let valid = g!("is_valid", b.is_valid());
                let s = g!("snapshot", snap(b));
                self.out.emit(&json!({"c": id, "ev": "chk", "chk": chk, "valid": valid, "snap": s}));
                Ok(())
            }
            "unmake" => self.unmake(),
            // start again from the case's position (a fresh board: nothing has been made or probed on it)
            "reload" => {
                let fen = self.fen.clone();
                let (b, sn) = g!("from_fen_string", { let b = Bitboard::from_fen_string(&fen).expect("fen loaded before"); let s = snap(&b); (b, s) });
                self.board = b;
                self.made.clear();
                self.out.emit(&json!({"c": id, "ev": "load", "fen": fen, "st": "ok", "snap": sn}));
                Ok(())
            }
            // every move the generator emits for the case's position, each made once on a fresh board: no legality probe, no
            // unmake, nothing else has touched the board when make runs
            "bare_all" => {
                let fen = self.fen.clone();
                let fresh = |fen: &str| { let b = Bitboard::from_fen_string(fen).expect("fen loaded before"); let s = snap(&b); (b, s) };
                let moves = g!("generate_pseudo_legal_moves", { let (b, _) = fresh(&fen); b.generate_pseudo_legal_moves() });
                let mut made = Vec::new();
                for mv in moves {
                    let (b, sn) = g!("from_fen_string", fresh(&fen));
                    self.board = b;
                    self.made.clear();
                    self.out.emit(&json!({"c": id, "ev": "load", "fen": fen, "st": "ok", "snap": sn}));
                    made.push(mv.to_uci_string());
                    self.make(mv)?;
                }
                let (b, sn) = g!("from_fen_string", fresh(&fen));
                self.board = b;
                self.made.clear();
                self.out.emit(&json!({"c": id, "ev": "load", "fen": fen, "st": "ok", "snap": sn}));
                self.out.emit(&json!({"c": id, "ev": "bare_done", "made": made}));
                Ok(())
            }
            // a game played through make_uci only (the `position ... moves` path); the next move is chosen on a scratch copy
            "walk_uci" => {
                let mut rng = StdRng::seed_from_u64(u64_of(op, "seed", 0));
                for _ in 0..u64_of(op, "plies", 10) {
                    let cur = Fen::from(&self.board).fen;
                    let legal = g!("generate_legal_moves", { let mut sc = Bitboard::from_fen_string(&cur).expect("own fen"); ucis(&sc.generate_legal_moves()) });
                    if legal.is_empty() { break; }
                    let s = legal[rng.gen_range(0..legal.len())].clone();
                    let r = g!("make_uci", self.board.make_uci(&s));
                    let sn = g!("snapshot", snap(&self.board));
                    match r {
                        Ok(()) => self.out.emit(&json!({"c": id, "ev": "make_uci", "s": s, "st": "ok", "err": "", "snap": sn})),
                        Err(e) => self.out.emit(&json!({"c": id, "ev": "make_uci", "s": s, "st": "err", "err": Self::err_name(&e), "snap": sn})),
                    }
                }
                Ok(())
            }
            "dfs" => { let m = str_of(op, "mode"); self.dfs(u64_of(op, "depth", 1), if m.is_empty() { "gen" } else { &m }) }
            "walk" => { let m = str_of(op, "mode"); self.walk(u64_of(op, "plies", 10), u64_of(op, "seed", 0), false, if m.is_empty() { "gen" } else { &m }) }
            "line" => { let m = str_of(op, "mode"); self.walk(u64_of(op, "plies", 10), u64_of(op, "seed", 0), true, if m.is_empty() { "gen" } else { &m }) }
            "find_uci" => {
                let s = str_of(op, "s");
                let r = g!("find_uci", self.board.find_uci(&s));
                let sn = g!("snapshot", snap(&self.board));
                let ev = match r {
                    Ok(mv) => json!({"c": id, "ev": "find_uci", "s": s, "st": "ok", "mv": mv.to_uci_string(), "snap": sn}),
                    Err(e) => json!({"c": id, "ev": "find_uci", "s": s, "st": "err", "mv": Self::err_name(&e), "snap": sn}),
                };
                self.out.emit(&ev);
                Ok(())
            }
            "make_uci" => {
                let s = str_of(op, "s");
                let r = g!("make_uci", self.board.make_uci(&s));
                // keep the harness's own undo stack meaningful: a successful make_uci cannot be unmade here
                self.made.clear();
                let sn = g!("snapshot", snap(&self.board));
                let ev = match r {
                    Ok(()) => json!({"c": id, "ev": "make_uci", "s": s, "st": "ok", "err": "", "snap": sn}),
                    Err(e) => json!({"c": id, "ev": "make_uci", "s": s, "st": "err", "err": Self::err_name(&e), "snap": sn}),
                };
                self.out.emit(&ev);
                Ok(())
            }
            "make_all_uci" => {
                let list: Vec<String> = op.get("list").and_then(|l| l.as_array()).map(|a| a.iter().map(|x| x.as_str().unwrap_or("").to_string()).collect()).unwrap_or_default();
                let r = g!("make_all_uci", self.board.make_all_uci(&list));
                self.made.clear();
                let sn = g!("snapshot", snap(&self.board));
                let ev = match r {
                    Ok(()) => json!({"c": id, "ev": "make_all_uci", "list": list, "st": "ok", "err": "", "snap": sn}),
                    Err(e) => json!({"c": id, "ev": "make_all_uci", "list": list, "st": "err", "err": Self::err_name(&e), "snap": sn}),
                };
                self.out.emit(&ev);
                Ok(())
            }
            "uci_to_pgn" => {
                let s = str_of(op, "s");
                let r = g!("uci_to_pgn", self.board.uci_to_pgn(&s));
                let sn = g!("snapshot", snap(&self.board));
                let ev = match r {
                    Ok(san) => json!({"c": id, "ev": "uci_to_pgn", "s": s, "st": "ok", "san": san, "snap": sn}),
                    Err(e) => json!({"c": id, "ev": "uci_to_pgn", "s": s, "st": "err", "san": Self::err_name(&e), "snap": sn}),
                };
                self.out.emit(&ev);
                Ok(())
            }
            "pgn_to_bb" => {
                let s = str_of(op, "s");
                let r = g!("pgn_to_bb", self.board.pgn_to_bb(&s));
                let sn = g!("snapshot", snap(&self.board));
                let ev = match r {
                    Ok(mv) => json!({"c": id, "ev": "pgn_to_bb", "s": s, "st": "ok", "mv": mv.to_uci_string(), "snap": sn}),
                    Err(_) => json!({"c": id, "ev": "pgn_to_bb", "s": s, "st": "err", "mv": "", "snap": sn}),
                };
                self.out.emit(&ev);
                Ok(())
            }
            "uci_batch" => {
                // every string from-square × to-square × {"",q,r,b,n,k}: which are accepted, which change the board
                let before = g!("snapshot", snap(&self.board));
                let files = ['a', 'b', 'c', 'd', 'e', 'f', 'g', 'h'];
                let mut ok = Vec::new();
                let mut changed = Vec::new();
                for f in 0..64usize {
                    for t in 0..64usize {
                        for p in ["", "q", "r", "b", "n", "k"] {
                            let s = format!("{}{}{}{}{}", files[f % 8], f / 8 + 1, files[t % 8], t / 8 + 1, p);
                            let r = g!("find_uci", self.board.find_uci(&s));
                            if let Ok(mv) = r {
                                if mv.to_uci_string() == s { ok.push(s.clone()); } else { ok.push(format!("{}->{}", s, mv.to_uci_string())); }
                            }
                            let after = g!("snapshot", snap(&self.board));
                            if after != before {
                                changed.push(s.clone());
                                // restore so that the remaining strings are judged on the same position
                                let fen = before["fen"].as_str().unwrap().to_string();
                                self.board = g!("reload", Bitboard::from_fen_string(&fen).unwrap());
                            }
                        }
                    }
                }
                let sn = g!("snapshot", snap(&self.board));
                self.out.emit(&json!({"c": id, "ev": "uci_batch", "ok": ok, "changed": changed, "snap": sn}));
                Ok(())
            }
            "san_all" => self.san_all(),
            "perft" => {
                let d = u64_of(op, "depth", 1) as usize;
                let r = g!("perft", self.board.perft(d));
                let rows: Vec<Value> = r.into_iter().map(|(m, n)| json!([m.to_uci_string(), n.to_string()])).collect();
                let sn = g!("snapshot", snap(&self.board));
                self.out.emit(&json!({"c": id, "ev": "perft", "depth": d, "rows": rows, "snap": sn}));
                Ok(())
            }
            other => {
                eprintln!("unknown op {}", other);
                Ok(())
            }
        }
    }
}

pub fn run(args: &[String]) -> i32 {
    quiet_panics();
    let cases = read_cases(&args[0]);
    let mut out = Out::create(&args[1]);
    for case in cases {
        let id = u64_of(&case, "id", 0);
        let fen = str_of(&case, "fen");
        let loaded = guarded(|| Bitboard::from_fen_string(&fen).map(|b| { let s = snap(&b); (b, s) }));
        let board = match loaded {
            Ok(Ok((b, s))) => {
                out.emit(&json!({"c": id, "ev": "load", "fen": fen, "st": "ok", "snap": s}));
                b
            }
            Ok(Err(_)) => {
                out.emit(&json!({"c": id, "ev": "load", "fen": fen, "st": "err"}));
                continue;
            }
            Err(m) => {
                out.emit(&json!({"c": id, "ev": "load", "fen": fen, "st": format!("panic: {}", m)}));
                continue;
            }
        };
        let mut ctx = Ctx { out: &mut out, id, board, made: Vec::new(), fen: fen.clone() };
        if let Some(ops) = case.get("ops").and_then(|o| o.as_array()) {
            for op in ops {
                if let Err(CasePanic(during, msg)) = ctx.op(op) {
                    let prop = str_of(&case, "prop");
                    ctx.out.emit(&json!({"c": id, "ev": "panic", "during": during, "msg": msg, "p": if prop.is_empty() { "C03".to_string() } else { prop }}));
                    break;
                }
            }
        }
    }
    0
}

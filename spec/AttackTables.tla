---------------------------- MODULE AttackTables ----------------------------
(***************************************************************************)
(* What the precomputed attack tables must contain (C04).                  *)
(* SlideAttack(kind, s, occ): squares reached by sliding from s along the  *)
(* rook ("R") or bishop ("B") rays until the first blocker in occ, blocker *)
(* included.  RelevantMask(kind, s): the ray squares whose occupancy can   *)
(* change the result (every ray without its last square).                  *)
(***************************************************************************)
EXTENDS Chess

DirsOf(kind) == IF kind = "R" THEN 1 .. 4 ELSE 5 .. 8

FirstIn(occ, ray) ==
  LET hit == {i \in 1 .. Len(ray) : ray[i] \in occ}
  IN IF hit = {} THEN Len(ray) ELSE CHOOSE i \in hit : \A j \in hit : i <= j

SlideAttack(kind, s, occ) ==
  UNION {LET ray == Ray[s][d] IN {ray[i] : i \in 1 .. FirstIn(occ, ray)} : d \in DirsOf(kind)}

RelevantMask(kind, s) ==
  UNION {LET ray == Ray[s][d] IN {ray[i] : i \in 1 .. (Len(ray) - 1)} : d \in DirsOf(kind)}

FullRays(kind, s) == UNION {{Ray[s][d][i] : i \in 1 .. Len(Ray[s][d])} : d \in DirsOf(kind)}

\* the reduction lemma: only the relevant squares matter (checked by TLC for every subset of the full rays)
ReductionHolds(kind, s) ==
  \A occ \in SUBSET FullRays(kind, s) : SlideAttack(kind, s, occ) = SlideAttack(kind, s, occ \cap RelevantMask(kind, s))

LeaperAttack(kind, s) ==
  CASE kind = "K" -> KingT[s] [] kind = "N" -> KnightT[s]
    [] kind = "WP" -> PawnAtt["w"][s] [] kind = "BP" -> PawnAtt["b"][s]

NameSq == [n \in {SqName[s] : s \in Squares} |-> CHOOSE s \in Squares : SqName[s] = n]
SqSet(seq) == {NameSq[seq[i]] : i \in 1 .. Len(seq)}
=============================================================================

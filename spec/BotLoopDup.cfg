SPECIFICATION Spec
CONSTANTS
  MaxPly = 5
  MaxExtra = 2
INVARIANT TypeOK
INVARIANT RxNeverDies
INVARIANT NoStaleMove
INVARIANT AtMostOneGoQueued
PROPERTY GamePlayed
CHECK_DEADLOCK FALSE

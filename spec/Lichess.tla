------------------------------- MODULE Lichess -------------------------------
(***************************************************************************)
(* The Lichess Bot API messages the bot consumes (C19), abstractly: a      *)
(* message is a flat record "dotted.field" -> string, with "none" for an   *)
(* absent optional field; `moves` is the space-separated move string.      *)
(* Shapes(type) gives the required and optional fields of each documented  *)
(* shape and the vocabularies of the enumerated fields (provenance: the    *)
(* serde models of lichess_api, restricted to what the public API document *)
(* is known to contain; see DESIGN.md Appendix B.10).                      *)
(* ExpectedDecode(msg) is what decoding the document must yield.           *)
(***************************************************************************)
EXTENDS UciGrammar

StatusKeys == {"created", "started", "aborted", "mate", "resign", "stalemate", "timeout", "draw", "outoftime", "cheat", "noStart", "unknownFinish", "variantEnd"}
VariantKeys == {"standard", "crazyhouse", "chess960", "fromPosition", "kingOfTheHill", "threeCheck", "antichess", "atomic", "horde", "racingKings"}
SpeedKeys == {"ultraBullet", "bullet", "blitz", "rapid", "classical", "correspondence"}
PerfKeys == {"ultraBullet", "bullet", "blitz", "rapid", "classical", "correspondence", "standard", "chess960", "kingOfTheHill", "antichess", "atomic", "threeCheck", "racingKings", "crazyhouse", "puzzle"}
SourceKeys == {"lobby", "friend", "ai", "api", "arena", "position", "import", "importlive", "simul", "relay", "pool", "swiss"}
Colors == {"white", "black"}
ColorChoices == {"random", "white", "black"}
Rooms == {"player", "spectator"}
ChallengeStatus == {"created", "offline", "canceled", "declined", "accepted"}
Directions == {"in", "out"}
TimeControls == {"clock", "correspondence", "unlimited"}
Bools == {"true", "false"}

StateReq(p) == {p \o "moves", p \o "wtime", p \o "btime", p \o "winc", p \o "binc", p \o "status"}
StateOpt(p) == {p \o "wdraw", p \o "bdraw", p \o "wtakeback", p \o "btakeback", p \o "winner", p \o "rematch"}
PlayerReq(p) == {p \o "id"}
PlayerOpt(p) == {p \o "aiLevel", p \o "name", p \o "title", p \o "rating", p \o "provisional"}
GameReq == {"game.fullId", "game.gameId", "game.fen", "game.color", "game.lastMove", "game.source", "game.status.id", "game.status.name",
            "game.variant.key", "game.variant.name", "game.speed", "game.perf", "game.rated", "game.hasMoved", "game.opponent.id", "game.opponent.username"}
GameOpt == {"game.opponent.rating", "game.opponent.ratingDiff", "game.opponent.ai", "game.secondsLeft", "game.tournamentId", "game.swissId",
            "game.orientation", "game.winner", "game.ratingDiff", "game.compat.bot", "game.compat.board"}
UserKeys(p) == {p \o "id", p \o "name", p \o "title", p \o "rating", p \o "provisional", p \o "patron", p \o "online", p \o "lag"}
ChalReq == {"challenge.id", "challenge.url", "challenge.status", "challenge.variant.key", "challenge.variant.name", "challenge.variant.short",
            "challenge.rated", "challenge.speed", "challenge.timeControl.type", "challenge.color", "challenge.finalColor",
            "challenge.perf.icon", "challenge.perf.name"}
ChalOpt == UserKeys("challenge.challenger.") \cup UserKeys("challenge.destUser.")
           \cup {"challenge.timeControl.limit", "challenge.timeControl.increment", "challenge.timeControl.show", "challenge.timeControl.daysPerTurn",
                 "challenge.rematchOf", "challenge.direction", "challenge.initialFen", "challenge.declineReason"}

Req(ty) ==
  {"type"} \cup
  CASE ty = "gameFull" -> {"id", "variant.key", "variant.name", "variant.short", "speed", "perf.name", "rated", "createdAt", "initialFen"}
                          \cup PlayerReq("white.") \cup PlayerReq("black.") \cup StateReq("state.")
    [] ty = "gameState" -> StateReq("")
    [] ty = "chatLine" -> {"room", "username", "text"}
    [] ty = "opponentGone" -> {"gone"}
    [] ty \in {"gameStart", "gameFinish"} -> GameReq
    [] ty \in {"challenge", "challengeCanceled", "challengeDeclined"} -> ChalReq
    [] OTHER -> {}
Opt(ty) ==
  CASE ty = "gameFull" -> PlayerOpt("white.") \cup PlayerOpt("black.") \cup StateOpt("state.") \cup {"clock.initial", "clock.increment", "daysPerTurn", "tournamentId"}
    [] ty = "gameState" -> StateOpt("")
    [] ty = "opponentGone" -> {"claimWinInSeconds"}
    [] ty \in {"gameStart", "gameFinish"} -> GameOpt
    [] ty = "challenge" -> ChalOpt \cup {"compat.bot", "compat.board"}
    [] ty \in {"challengeCanceled", "challengeDeclined"} -> ChalOpt
    [] OTHER -> {}

Types == {"gameFull", "gameState", "chatLine", "opponentGone", "gameStart", "gameFinish", "challenge", "challengeCanceled", "challengeDeclined"}

\* vocabularies of enumerated fields (by the last component of the key)
VocabOf(k) ==
  CASE k \in {"state.status", "status", "game.status.name"} -> StatusKeys
    [] k \in {"variant.key", "game.variant.key", "challenge.variant.key"} -> VariantKeys
    [] k \in {"speed", "game.speed", "challenge.speed"} -> SpeedKeys
    [] k = "game.perf" -> PerfKeys
    [] k = "game.source" -> SourceKeys
    [] k \in {"state.winner", "winner", "game.color", "game.orientation", "game.winner", "challenge.finalColor"} -> Colors
    [] k = "challenge.color" -> ColorChoices
    [] k = "room" -> Rooms
    [] k = "challenge.status" -> ChallengeStatus
    [] k = "challenge.direction" -> Directions
    [] k = "challenge.timeControl.type" -> TimeControls
    [] OTHER -> {}

MovesKeys == {"moves", "state.moves"}

\* the abstract message is one of the documented shapes
WellShaped(msg) ==
  /\ "type" \in DOMAIN msg /\ msg["type"] \in Types
  /\ DOMAIN msg = Req(msg["type"]) \cup Opt(msg["type"])
  /\ \A k \in Req(msg["type"]) : msg[k] # "none"
  /\ \A k \in DOMAIN msg : (VocabOf(k) # {} /\ msg[k] # "none") => msg[k] \in VocabOf(k)

MovesOf(s) == IF TrimR(TrimL(s)) = "" THEN <<>> ELSE Split(s, " ")
ExpectedField(msg, k) == IF k \in MovesKeys THEN MovesOf(msg[k]) ELSE msg[k]
=============================================================================

------------------------------ MODULE GeomCheck ------------------------------
(* The board geometry primitives of inkayaku_core that the attack tables are built from at compile time     *)
(* (Square::translate, the sixteen Direction constants, Square::from_index / from_indices): one state per   *)
(* (square, direction) pair.  The implementation counts ranks downwards (NORTH = delta_rank -1 = towards    *)
(* rank 8); the specification uses chess coordinates, so a direction (df, dri) means file + df, rank - dri. *)
EXTENDS Chess, TLC, Json, IOUtils

Rows == ndJsonDeserialize(IOEnv.FILE)
VARIABLE i
NameSq == [n \in {SqName[s] : s \in Squares} |-> CHOOSE s \in Squares : SqName[s] = n]

Expect(r) ==
  LET s == NameSq[r.sq]
      f == FileOf(s) + r.df
      k == RankOf(s) - r.dr
  IN IF OnBoard(f, k) THEN SqName[Sq(f, k)] ELSE "none"

Init == i \in 1 .. Len(Rows)
Next == UNCHANGED i
CellOk == \/ CASE Rows[i].k = "translate" -> Rows[i].to = Expect(Rows[i])
               [] Rows[i].k = "index" -> \* square number n of the implementation (a8 = 0, row by row) names file n % 8, rank 8 - n / 8
                    Rows[i].name = SqName[Sq(Rows[i].n % 8, 7 - Rows[i].n \div 8)]
               [] OTHER -> FALSE
          \/ PrintT(<<"BADCELL", i, Rows[i]>>) /\ FALSE
=============================================================================

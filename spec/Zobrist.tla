------------------------------ MODULE Zobrist ------------------------------
(***************************************************************************)
(* Position hashing as the property states it: the hash is the XOR of one  *)
(* key per (piece, square), per castling right, per en-passant FILE and a  *)
(* side key -- and of nothing else (no clocks, no move order).             *)
(* 64-bit values are four 16-bit limbs <<l3, l2, l1, l0>> because TLC      *)
(* integers are 32-bit.  The key table KT is obtained black-box from the   *)
(* implementation (probe FENs) and is a parameter here:                    *)
(*   KT.base         hash of the empty board, Black to move                *)
(*   KT.side         key toggled when White is to move                     *)
(*   KT.piece[p][s+1] key of piece code p (1..12) on square s (a1 = 0)     *)
(*   KT.right.K/Q/k/q, KT.ep[f+1]                                          *)
(* and the same with prefix p (pbase, pside, ppiece, pright, pep) for the  *)
(* pawn hash.                                                              *)
(***************************************************************************)
EXTENDS Chess, Bitwise, FiniteSetsExt

Xor64(a, b) == <<a[1] ^^ b[1], a[2] ^^ b[2], a[3] ^^ b[3], a[4] ^^ b[4]>>
Zero64 == <<0, 0, 0, 0>>

\* the names of the keys a position selects: the identity C06 speaks of
ZKeys(pos) ==
  {<<"piece", pos.bd[s], s>> : s \in {t \in Squares : pos.bd[t] # 0}}
  \cup {<<"right", x, 0>> : x \in pos.cr}
  \cup (IF pos.ep = -1 THEN {} ELSE {<<"ep", FileOf(pos.ep), 0>>})
  \cup (IF pos.stm = "w" THEN {<<"side", 0, 0>>} ELSE {})

\* position identity for repetition and transposition purposes
ZKey(pos) == <<pos.bd, pos.stm, pos.cr, IF pos.ep = -1 THEN -1 ELSE FileOf(pos.ep)>>

KeyVal(KT, k) ==
  CASE k[1] = "piece" -> KT.piece[k[2]][k[3] + 1]
    [] k[1] = "right" -> KT.right[k[2]]
    [] k[1] = "ep" -> KT.ep[k[2] + 1]
    [] k[1] = "side" -> KT.side

HashOf(pos, KT) ==
  FoldSet(LAMBDA k, acc : Xor64(KeyVal(KT, k), acc), KT.base, ZKeys(pos))

\* the pawn hash: pawns, side and e.p. file only
PawnKeys(pos) == {k \in ZKeys(pos) : \/ k[1] \in {"ep", "side"}
                                     \/ k[1] = "piece" /\ KindOf(k[2]) = 1}
PawnHashOf(pos, KT) ==
  FoldSet(LAMBDA k, acc : Xor64(KeyVal(KT, k), acc), KT.base, PawnKeys(pos))
=============================================================================

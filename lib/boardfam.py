"""Board family (C01 C02 C03 C05 C06, and the board side of C13 C14): cases for the `ikv board` harness,
validated by spec/BoardTrace.tla."""
import json
import os
import random
import time

from common import (SPEC, VERIF, IKV, NCPU, Outcome, ToolError, log, pmap, read_ndjson, run_harness, run_tlc,
                    seed, shard, validate_trace, workdir, write_evidence)
import subprocess


# --------------------------------------------------------------------------- corpus
def corpus(wd):
    """roots.ndjson checked (and colour-flipped) by TLC: only well-formed positions reach the code"""
    out = os.path.join(wd, "corpus.json")
    info = run_tlc(os.path.join(SPEC, "CorpusCheck.tla"), os.path.join(SPEC, "CorpusCheck.cfg"), wd,
                   env={"ROOTS": os.path.join(VERIF, "corpus", "roots.ndjson"), "OUT": out}, timeout=600)
    if info["rc"] != 0 or not os.path.exists(out):
        raise ToolError("CorpusCheck failed:\n" + info["out"][-2000:])
    roots = []
    for r in json.load(open(out)):
        if not r["ok"]:
            log("corpus: ill-formed root dropped: " + r["fen"])
            continue
        roots.append({"fen": r["fen"], "tags": r["tags"], "n": r["nmoves"]})
        if r["flip"] != r["fen"]:
            roots.append({"fen": r["flip"], "tags": r["tags"] + ["flipped"], "n": r["nmoves"]})
    return roots


def walk_roots(wd, rng, roots, n):
    """thorough tier: further roots, taken from random legal games started at the corpus roots (every position of such a game is
    reachable by legal moves from a TLC-checked root); TLC (PosFilter) supplies the number of legal moves used to size the cases"""
    cases = [{"id": i + 1, "fen": rng.choice(roots)["fen"], "ops": [{"op": "walk", "plies": rng.choice([10, 30, 60, 120]), "seed": rng.randrange(1 << 30)}]}
             for i in range(max(1, n // 8))]
    tr = run_harness("board", cases, wd, "walkroots", "C01")
    fens = list(dict.fromkeys(e["snap"]["fen"] for e in read_ndjson(tr) if e["ev"] == "make"))
    fens = rng.sample(fens, min(len(fens), n))
    cls = posfilter(wd, fens, "wr")
    known = {r["fen"] for r in roots}
    return [{"fen": f, "tags": ["walk"], "n": cls[f]["nlegal"]} for f in fens if cls[f]["wf"] and f not in known]


def keys_file(wd):
    p = os.path.join(wd, "keys.json")
    r = subprocess.run([IKV, "keys", p], stdout=subprocess.PIPE, stderr=subprocess.PIPE, text=True)
    if r.returncode != 0:
        raise ToolError("key probing failed: " + r.stderr[-500:])
    return p


def keys_check(wd, keys):
    """KeysCheck.tla: every key non-zero, keys pairwise distinct, e.p. key by file, pawn-hash keys the stated subset.
    Returns (tlc info, list of problems)."""
    swd = os.path.join(wd, "keyscheck")
    os.makedirs(swd, exist_ok=True)
    info = run_tlc(os.path.join(SPEC, "KeysCheck.tla"), os.path.join(SPEC, "KeysCheck.cfg"), swd, env={"KEYS": keys}, timeout=1200)
    out = info["out"]
    probs = []
    pos = out.find('"BADKEY"')
    while pos >= 0 and len(probs) < 5:
        probs.append(" ".join(out[pos:pos + 400].split()))
        pos = out.find('"BADKEY"', pos + 10)
    if not probs and ("is violated" in out):
        probs.append("key table invariant violated")
    if info["rc"] != 0 and not probs:
        raise ToolError("KeysCheck failed:\n" + out[-1500:])
    return info, probs


def with_clocks(fen, hmc, fmn, plies=1):
    """C03 bounds the half-move clock to the 12 bits the move encoding has (0..4095): a case never lets the clock
    pass 4095, so the start value is capped by the number of plies the case can add"""
    f = fen.split(" ")
    return " ".join(f[:4] + [str(max(0, min(hmc, 4095 - plies))), str(fmn)])


HMCS = [0, 1, 49, 50, 99, 100, 127, 128, 129, 255, 1000, 4094]
FMNS = [1, 2, 100, 2400, 65535, 1000000]
BIG_HMCS = [4096, 5000, 8191, 8192, 65535, 65536, 262143, 262144, 300000, 1048576, 16777215, 16777216, 134217727, 134217728, 536870912, 999999998]


def synthetic_fens(rng, n):
    """random placements (not game-reachable in general): kings anywhere or at home with rooks and castling rights, 0-14 further pieces,
    sometimes an e.p. pair with its target square.  Candidates only: TLC (PosFilter) keeps the well-formed ones."""
    out = []
    for _ in range(n):
        board = {}
        rights = ""
        if rng.random() < 0.45:
            board[4] = "K"
            for sq, r in ((7, "K"), (0, "Q")):
                if rng.random() < 0.7:
                    board[sq] = "R"
                    if rng.random() < 0.8:
                        rights += r
        if rng.random() < 0.45:
            board[60] = "k"
            for sq, r in ((63, "k"), (56, "q")):
                if rng.random() < 0.7:
                    board[sq] = "r"
                    if rng.random() < 0.8:
                        rights += r
        for k in "Kk":
            if k not in board.values():
                q = rng.randrange(64)
                while q in board:
                    q = rng.randrange(64)
                board[q] = k
        stm = rng.choice("wb")
        ep = "-"
        if rng.random() < 0.25:
            f = rng.randrange(8)
            if stm == "w":      # black has just played x7-x5
                sq5, sq6, sq7, own = 32 + f, 40 + f, 48 + f, "P"
            else:               # white has just played x2-x4
                sq5, sq6, sq7, own = 24 + f, 16 + f, 8 + f, "p"
            if sq5 not in board and sq6 not in board and sq7 not in board:
                board[sq5] = "p" if stm == "w" else "P"
                ep = "abcdefgh"[f] + ("6" if stm == "w" else "3")
                for df in (-1, 1):
                    if 0 <= f + df < 8 and rng.random() < 0.6 and (sq5 + df) not in board:
                        board[sq5 + df] = own
                blocked = {sq6, sq7}
            else:
                blocked = set()
        else:
            blocked = set()
        for _ in range(rng.randrange(0, 15)):
            q = rng.randrange(64)
            pc = rng.choice("QRBNPqrbnp" + "Pp" * 3)
            if q in board or q in blocked or (pc in "Pp" and (q < 8 or q >= 56)):
                continue
            board[q] = pc
        f4 = board_to_fen(board, stm).split(" ")
        f4[2] = rights or "-"
        f4[3] = ep
        out.append(" ".join(f4))
    return out


def attacker_geometry(rng, T):
    """king x one enemy piece, systematically: every king square x every attacker square for pawns of both colours (the asymmetric,
    edge-sensitive kind), and for the other kinds all of them in the thorough tier / a sample otherwise.  The other king stands
    away from both.  All are legal positions by construction (TLC's filter still sees them)."""
    out = []
    for kcol in "wb":
        for ksq in range(64):
            for kind in "pqrbn":
                for asq in range(64):
                    if asq == ksq or (kind == "p" and (asq < 8 or asq >= 56)):
                        continue
                    if kind != "p" and not T and rng.random() > 0.06:
                        continue
                    far = [q for q in range(64) if q not in (ksq, asq) and max(abs(q % 8 - ksq % 8), abs(q // 8 - ksq // 8)) >= 2]
                    board = {ksq: "K" if kcol == "w" else "k", asq: kind if kcol == "w" else kind.upper(),
                             rng.choice(far): "k" if kcol == "w" else "K"}
                    out.append(board_to_fen(board, kcol))
    return out


def cases_for(prop, tier, roots, rng, wd=None):
    """the case mix per property; every case is {id, fen, ops, prop, family}"""
    T = tier == "thorough"
    cases = []
    extra = []
    if prop in ("C01", "C05") and wd:
        cand = ep_geometry_fens(rng, 3000 if T else 500, False) + ep_geometry_fens(rng, 20000 if T else 3000, True)
        cls = posfilter(wd, cand)
        wf = [c for c in cand if cls[c]["wf"]]
        terminal = [c for c in wf if cls[c]["nlegal"] == 0 and cls[c]["nillegal"] > 0]
        pinned = [c for c in wf if cls[c]["nlegal"] > 0 and cls[c]["nillegal"] > 0]
        # second round: positions with an illegal e.p. capture get their king boxed in by further enemy pieces (many attempts, TLC filters)
        epill = [c for c in wf if cls[c]["epill"] and not cls[c]["check"]]
        cand2 = []
        for c in epill[: (400 if T else 80)]:
            for _ in range(60 if T else 40):
                cand2.append(box_in(rng, c))
        cls2 = posfilter(wd, cand2, "pf2") if cand2 else {}
        term2 = [c for c in dict.fromkeys(cand2) if cls2[c]["wf"] and cls2[c]["nlegal"] == 0 and cls2[c]["epill"]]
        terminal = term2 + terminal
        log("%s: e.p. geometry candidates %d, well-formed %d, with illegal e.p. capture %d, move-less with pseudo-legal moves %d (of which with an illegal e.p. capture %d)"
            % (prop, len(cand), len(wf), len(epill), len(terminal), len(term2)))
        extra = terminal[: (2000 if T else 250)] + rng.sample(pinned, min(len(pinned), 1500 if T else 200))

    def add(fen, ops, why):
        cases.append({"id": len(cases) + 1, "family": "board", "prop": prop, "fen": fen, "ops": ops, "why": why})

    # placements that no game of the corpus reaches: random candidates, TLC keeps the well-formed ones
    synth = []
    if wd and prop in ("C01", "C02", "C03", "C05", "C06"):
        scand = synthetic_fens(rng, 6000 if T else 900)
        scls = posfilter(wd, scand, "syn")
        synth = [c for c in dict.fromkeys(scand) if scls[c]["wf"]]
        log("%s: synthetic placements %d, well-formed %d" % (prop, len(scand), len(synth)))
        for f in synth[: (1500 if T else 150)]:
            add(f, [{"op": "dfs", "depth": 1}], "synthetic placement (castling rights, e.p. pairs, arbitrary material): every emitted move")
        for f in (synth[(1500 if T else 150):] if prop != "C03" else []):
            add(f, [{"op": "gen"}] if prop in ("C01", "C05") else [{"op": "bare_all"}], "synthetic placement")

    sparse = [r for r in roots if r["n"] <= 25]
    dense = [r for r in roots if r["n"] > 25]
    tagged = lambda *ts: [r for r in roots if any(t in r["tags"] for t in ts)]
    pick = lambda rs, k: rng.sample(rs, min(k, len(rs)))

    if prop == "C01":
        for r in roots:
            add(r["fen"], [{"op": "dfs", "depth": 1}], "all generators at the root and after every move")
        for r in pick(sparse, 450 if T else 6) + pick(dense, 90 if T else 2):
            add(r["fen"], [{"op": "dfs", "depth": 2}], "depth-2 tree")
        if T:
            for r in pick([r for r in roots if r["n"] <= 12], 60):
                add(r["fen"], [{"op": "dfs", "depth": 3}], "depth-3 tree")
        for r in pick(roots, 900 if T else 14):
            add(r["fen"], [{"op": "walk", "plies": 120 if T else 50, "seed": rng.randrange(1 << 30)}], "random legal game")
        for r in pick(tagged("perft", "castle", "ep", "promo"), 20 if T else 5):
            add(r["fen"], [{"op": "perft", "depth": 2}], "perft(2) per root move")
        for f in extra:
            add(f, [{"op": "gen"}], "e.p. pair with king/slider geometry (TLC-filtered candidates): all generators")
    elif prop == "C02":
        for r in roots:
            add(r["fen"], [{"op": "dfs", "depth": 1}], "every legal move made once")
        for r in pick(roots, 500 if T else 12):
            for h in (HMCS if T else pick(HMCS, 4)):
                f = with_clocks(r["fen"], h, rng.choice(FMNS))
                add(f, [{"op": "dfs", "depth": 1}], "clock sweep")
        for r in pick(roots, 500 if T else 10):
            add(r["fen"], [{"op": "walk", "plies": 400 if T else 150, "seed": rng.randrange(1 << 30)}], "long game")
        for r in pick(tagged("ending"), 10 if T else 3):
            n = 300 if T else 100
            add(with_clocks(r["fen"], rng.choice([90, 120, 300, 3900]), rng.choice(FMNS), n),
                [{"op": "walk", "plies": n, "seed": rng.randrange(1 << 30)}], "long game, high clocks")
        # any clock: every emitted move made once on a fresh board (no probe, no unmake: the 12-bit undo field of C03 plays no part)
        for r in pick(roots, 150 if T else 10):
            for h in (BIG_HMCS if T else pick(BIG_HMCS, 3)):
                f = r["fen"].split(" ")
                add(" ".join(f[:4] + [str(h), str(rng.choice(FMNS))]), [{"op": "bare_all"}], "bare make at any half-move clock")
        # the usual way of playing a move: by its text, the board probing legality itself before it makes the move
        for r in pick(roots, 150 if T else 10):
            n = 120 if T else 40
            add(with_clocks(r["fen"], rng.choice(HMCS), rng.choice(FMNS), n),
                [{"op": "walk_uci", "plies": n, "seed": rng.randrange(1 << 30)}], "game played through make_uci, arbitrary clocks")
    elif prop == "C03":
        for r in roots:
            add(r["fen"], [{"op": "dfs", "depth": 1}], "make/unmake of every emitted move, legal or not")
        for r in pick(sparse, 350 if T else 4) + pick(dense, 70 if T else 1):
            add(r["fen"], [{"op": "dfs", "depth": 2}], "nested make/unmake")
        for r in pick(roots, 700 if T else 12):
            for h in (HMCS if T else pick([127, 128, 129, 255, 1000, 4094], 3)):
                add(with_clocks(r["fen"], h, rng.choice(FMNS)), [{"op": "dfs", "depth": 1}], "clock sweep incl. >= 128")
        for r in pick(roots, 700 if T else 12):
            n = rng.choice([5, 20, 80, 200]) if T else rng.choice([5, 20, 60])
            add(with_clocks(r["fen"], rng.choice(HMCS), rng.choice(FMNS), n),
                [{"op": "line", "plies": n, "seed": rng.randrange(1 << 30)}],
                "line made then unmade in reverse")
        for r in pick(roots, 120 if T else 8):
            add(with_clocks(r["fen"], rng.choice(HMCS), rng.choice(FMNS), 2),
                [{"op": "gen"}, {"op": "perft", "depth": 2}, {"op": "gen"}, {"op": "san_all"}, {"op": "gen"}],
                "read-only calls that make/unmake internally")
    elif prop == "C05":
        for r in roots:
            add(r["fen"], [{"op": "dfs", "depth": 1}], "check flags at the root and after every emitted move")
        for r in pick(tagged("check", "mate", "stalemate", "pin", "ep"), 40 if T else 8):
            add(r["fen"], [{"op": "dfs", "depth": 2}], "depth-2 tree from tactical roots")
        for r in tagged("ending"):
            for _ in range(12 if T else 3):
                add(r["fen"], [{"op": "walk", "plies": 200 if T else 80, "seed": rng.randrange(1 << 30)}], "random play into mates/stalemates")
        for r in pick(roots, 600 if T else 8):
            add(r["fen"], [{"op": "walk", "plies": 150 if T else 60, "seed": rng.randrange(1 << 30)}], "random legal game")
        for f in extra:
            add(f, [{"op": "dfs", "depth": 1}], "move-less positions that still have pseudo-legal moves, and e.p. discovered-check geometry (TLC-filtered candidates)")
        geo = attacker_geometry(rng, T)
        gcls = posfilter(wd, geo, "geo") if wd else {}
        for f in geo:
            if not wd or gcls[f]["wf"]:
                add(f, [{"op": "chk"}], "king and one enemy piece: every square pair (check queries only)")
    elif prop == "C06":
        for r in roots:
            add(r["fen"], [{"op": "dfs", "depth": 1}], "delta of every emitted move")
        for r in pick(sparse, 350 if T else 4) + pick(dense, 70 if T else 1):
            add(r["fen"], [{"op": "dfs", "depth": 2}], "depth-2 tree")
        for r in pick(roots, 800 if T else 16):
            n = 300 if T else 100
            add(with_clocks(r["fen"], rng.choice(HMCS), rng.choice(FMNS), n),
                [{"op": "walk", "plies": n, "seed": rng.randrange(1 << 30)}], "random game, arbitrary clocks")
        # the hash does not depend on the clocks: deltas of every emitted move at any half-move clock (bare makes on fresh boards)
        for r in pick(roots, 24 if T else 6):
            f = r["fen"].split(" ")
            add(" ".join(f[:4] + [str(rng.choice(BIG_HMCS)), str(rng.choice(FMNS))]), [{"op": "bare_all"}], "hash deltas at any half-move clock")
    else:
        raise ToolError("no board case mix for " + prop)
    return cases



# --------------------------------------------------------------------------- spec -> implementation material
def casegen(wd, fens, tag="cg"):
    """TLC (CaseGen.tla) computes, per position: legal moves, illegal pseudo-legal moves, SAN of every legal
    move and random legal lines.  Sharded over JVMs."""
    fens = list(dict.fromkeys(fens))
    if not fens:
        return {}
    n = min(NCPU, max(1, len(fens) // 8))
    parts = [fens[i::n] for i in range(n)]

    def one(i):
        rp = os.path.join(wd, "%s_roots_%d.ndjson" % (tag, i))
        op = os.path.join(wd, "%s_out_%d.json" % (tag, i))
        with open(rp, "w") as f:
            for x in parts[i]:
                f.write(json.dumps({"fen": x}) + "\n")
        swd = os.path.join(wd, "%s_tlc_%d" % (tag, i))
        os.makedirs(swd, exist_ok=True)
        info = run_tlc(os.path.join(SPEC, "CaseGen.tla"), os.path.join(SPEC, "CaseGen.cfg"), swd,
                       env={"ROOTS": rp, "OUT": op}, timeout=1800, extra=["-seed", str(seed() + i)])
        if info["rc"] != 0 or not os.path.exists(op):
            raise ToolError("CaseGen failed:\n" + info["out"][-2000:])
        return json.load(open(op)), info

    out = {}
    infos = []
    for rows, info in pmap(one, list(range(n))):
        infos.append(info)
        for r in rows:
            out[r["fen"]] = r
    return out, infos


FILES = "abcdefgh"


def posfilter(wd, fens, tag="pf"):
    """TLC classifies candidate positions: {fen: [wf, nlegal, nillegal, check]}"""
    fens = list(dict.fromkeys(fens))
    n = min(NCPU, max(1, len(fens) // 200))
    parts = [fens[i::n] for i in range(n)]

    def one(i):
        rp = os.path.join(wd, "%s_in_%d.ndjson" % (tag, i))
        op = os.path.join(wd, "%s_out_%d.json" % (tag, i))
        with open(rp, "w") as f:
            for x in parts[i]:
                f.write(json.dumps({"fen": x}) + "\n")
        swd = os.path.join(wd, "%s_tlc_%d" % (tag, i))
        os.makedirs(swd, exist_ok=True)
        info = run_tlc(os.path.join(SPEC, "PosFilter.tla"), os.path.join(SPEC, "PosFilter.cfg"), swd, env={"ROOTS": rp, "OUT": op}, timeout=1800)
        if info["rc"] != 0 or not os.path.exists(op):
            raise ToolError("PosFilter failed:\n" + info["out"][-2000:])
        return json.load(open(op))

    out = {}
    for rows in pmap(one, list(range(n))):
        for r in rows:
            out[r["fen"]] = r
    return out


def ep_geometry_fens(rng, n, boxed):
    """candidates around an e.p. pair: own king and an enemy slider anywhere (the discovered-check geometry of e.p. captures on ranks and
    diagonals arises by placement), optionally with enemy pieces thrown in near the king (boxed in: mates and stalemates whose only
    pseudo-legal moves are illegal).  TLC (PosFilter) keeps the well-formed ones."""
    out = []
    for _ in range(n):
        white = rng.random() < 0.5
        f = rng.randrange(8)
        g = rng.choice([x for x in (f - 1, f + 1) if 0 <= x < 8])
        r = 4 if white else 3                       # rank index of the two pawns
        board = {r * 8 + f: "p" if white else "P", r * 8 + g: "P" if white else "p"}
        if rng.random() < 0.4:
            h = 2 * f - g
            if 0 <= h < 8:
                board[r * 8 + h] = "P" if white else "p"       # a second candidate capturer
        free = [q for q in range(64) if q not in board and q != (r + (1 if white else -1)) * 8 + f and q != (r + (2 if white else -2)) * 8 + f]
        ksq = rng.choice([q for q in free if q // 8 == r] if rng.random() < 0.5 else free)
        board[ksq] = "K" if white else "k"
        free.remove(ksq)
        for _ in range(rng.choice([1, 1, 2])):
            q = rng.choice([x for x in free if x // 8 == r] if rng.random() < 0.5 else free)
            board[q] = rng.choice("rqb") if white else rng.choice("RQB")
            free.remove(q)
        q = rng.choice(free)
        board[q] = "k" if white else "K"
        free.remove(q)
        if boxed:
            near = [x for x in free if abs(x // 8 - ksq // 8) <= 3 and abs(x % 8 - ksq % 8) <= 3]
            for _ in range(rng.choice([1, 2, 3, 4])):
                if near:
                    x = rng.choice(near)
                    near.remove(x)
                    board[x] = rng.choice("qrbnp" if white else "QRBNP")
        fen = board_to_fen(board, "w" if white else "b").split(" ")
        fen[3] = "abcdefgh"[f] + ("6" if white else "3")
        out.append(" ".join(fen))
    return out


def box_in(rng, fen):
    """add 1-5 enemy pieces near the king of the side to move (candidate only; TLC judges)"""
    f = fen.split(" ")
    rows = f[0].split("/")
    board = {}
    for ri, row in enumerate(rows):
        c = 0
        for ch in row:
            if ch.isdigit():
                c += int(ch)
            else:
                board[(7 - ri) * 8 + c] = ch
                c += 1
    white = f[1] == "w"
    ksq = [q for q, p in board.items() if p == ("K" if white else "k")][0]
    epf = "abcdefgh".index(f[3][0])
    keep = {(int(f[3][1]) - 1) * 8 + epf, (int(f[3][1]) - 1 + (1 if white else -1)) * 8 + epf}
    near = [x for x in range(64) if x not in board and x not in keep and abs(x // 8 - ksq // 8) <= 3 and abs(x % 8 - ksq % 8) <= 3]
    for _ in range(rng.choice([1, 2, 3, 4, 5])):
        if near:
            x = rng.choice(near)
            near.remove(x)
            board[x] = rng.choice("qrbnnp" if white else "QRBNNP")
    out = board_to_fen(board, f[1]).split(" ")
    out[3] = f[3]
    return " ".join(out)


def promotion_fens():
    """a pawn one step from promotion on every file, for either colour, with and without enemy pieces to capture on the neighbouring
    promotion squares (kings far away on another file)"""
    out = []
    for f in range(8):
        kf = (f + 4) % 8
        for caps in ((), (-1,), (1,), (-1, 1)):
            board = {48 + f: "P", kf: "K", 24 + kf: "k"}
            for d in caps:
                if 0 <= f + d < 8:
                    board[56 + f + d] = "n"
            out.append(board_to_fen(board, "w"))
            board = {8 + f: "p", 56 + kf: "k", 32 + kf: "K"}
            for d in caps:
                if 0 <= f + d < 8:
                    board[f + d] = "N"
            out.append(board_to_fen(board, "b"))
    return list(dict.fromkeys(out))


def like_piece_fens(rng, n):
    """candidate positions with 2-4 like pieces able to reach common squares, some of them pinned; TLC keeps
    the well-formed ones (CaseGen's wf flag), so no chess judgement is made here"""
    out = []
    for _ in range(n):
        white = rng.random() < 0.5
        kind = rng.choice("NNNRRQQB")
        k = rng.choice([2, 2, 3, 3, 4])
        sqs = rng.sample(range(64), k + 2 + rng.choice([0, 1, 2]))
        board = {}
        board[sqs[0]] = "K"
        board[sqs[1]] = "k"
        for q in sqs[2:2 + k]:
            board[q] = kind if white else kind.lower()
        for q in sqs[2 + k:]:
            board[q] = rng.choice("rbq" if white else "RBQ")   # enemy sliders: pins
        out.append(board_to_fen(board, "w" if white else "b"))
    # three candidate pawns for one promotion square, and promotions with capture
    for _ in range(max(2, n // 10)):
        f = rng.randrange(1, 7)
        white = rng.random() < 0.5
        board = {}
        r7, r8 = (6, 7) if white else (1, 0)
        for df in (-1, 0, 1):
            board[r7 * 8 + f + df] = "P" if white else "p"
        tgt = rng.choice("nbrq")
        board[r8 * 8 + f - 1] = tgt.lower() if white else tgt.upper()
        board[r8 * 8 + f + 1] = tgt.lower() if white else tgt.upper()
        ks = [q for q in range(16, 48) if q not in board]
        a, b = rng.sample(ks, 2)
        board[a], board[b] = "K", "k"
        out.append(board_to_fen(board, "w" if white else "b"))
    return out


def board_to_fen(board, stm):
    rows = []
    for r in range(7, -1, -1):
        row, run = "", 0
        for f in range(8):
            p = board.get(r * 8 + f)
            if p:
                row += (str(run) if run else "") + p
                run = 0
            else:
                run += 1
        rows.append(row + (str(run) if run else ""))
    return "/".join(rows) + " %s - - 0 1" % stm


def uci_mutations(rng, legal, illegal):
    out = set()
    for u in rng.sample(legal, min(len(legal), 6)):
        out.update([u, " " + u + " ", u + " ", "\t" + u, u + "q", u[:4], u[:4] + "k", u.upper(), u[:3], u + "qq",
                    u[2:4] + u[0:2], u[:4] + "Q"])
    out.update(illegal)
    out.update(["", " ", "e2e9", "i2i4", "é2e4", "e2 e4", "0000", "e2e4e5", "a1a1", "h8h9q", "O-O", "e7e8=Q"])
    return sorted(out)


def san_mutations(rng, sans, foreign):
    out = set()
    for u, s in rng.sample(sans, min(len(sans), 8)):
        core = s.rstrip("+#")
        out.update([s, core, core + "+", core + "#", s + "!", s + "?!", s + "!!", core.replace("x", ""), core.lower(),
                    core.replace("O", "0"), core.replace("=", ""), core + "=K", " " + s, s + " "])
        if core[0] in "NBRQK" and len(core) >= 3:
            out.update([core[0] + f + core[1:] for f in rng.sample(FILES, 2)])
            out.update([core[0] + r + core[1:] for r in rng.sample("12345678", 2)])
            out.add(core[0] + core[2:] if len(core) > 3 else core)
    out.update(rng.sample(foreign, min(len(foreign), 10)))
    out.update(["", "x", "Ke", "e9", "Zf3", "O-O-O-O", "exd", "=Q", "e8=", "N", "♞f3"])
    return sorted(out)


def text_cases(prop, tier, roots, rng, wd):
    T = tier == "thorough"
    sample = rng.sample(roots, min(len(roots), 300 if T else 24))
    fens = [r["fen"] for r in sample]
    if prop == "C14":
        fens += like_piece_fens(rng, 400 if T else 60)
        pf = promotion_fens()
        fens += pf if T else rng.sample(pf, 24) + [x for x in pf if x.split("/")[1].startswith("P") or x.split("/")[6].startswith("p")][:4]
    gen, infos = casegen(wd, fens)
    all_sans = [s for g in gen.values() for _, s in g["sans"]]
    cases = []

    def add(fen, ops, why):
        cases.append({"id": len(cases) + 1, "family": "board", "prop": prop, "fen": fen, "ops": ops, "why": why})

    for fen in fens:
        g = gen[fen]
        if not g["wf"]:
            continue
        legal, illegal, sans, lines = g["legal"], g["illegal"], [tuple(x) for x in g["sans"]], g["lines"]
        if prop == "C13":
            muts = uci_mutations(rng, legal, illegal)
            ops = [{"op": "find_uci", "s": x} for x in muts]
            ops += [{"op": "uci_to_pgn", "s": x} for x in rng.sample(muts, min(len(muts), 12)) + illegal]
            ops += [{"op": "pgn_to_bb", "s": x} for x in san_mutations(rng, sans, all_sans)[:25]]
            ops += [{"op": "make_uci", "s": x} for x in illegal + rng.sample(muts, min(len(muts), 6))]
            add(fen, ops, "single calls: legal, illegal pseudo-legal and malformed strings, repeated on one board")
            # all-or-nothing lists: the error at every index
            bads = illegal + ["zz", "", "e2e9"] + ([rng.choice(legal) + "q"] if legal else [])
            ops = []
            for line in lines:
                for i in range(len(line) + 1):
                    lst = list(line[:i]) + [rng.choice(bads)] + list(line[i:])
                    ops.append({"op": "make_all_uci", "list": lst})
                    ops.append({"op": "gen"})
            if lines and lines[-1]:
                ops.append({"op": "make_all_uci", "list": list(lines[1])})
                ops.append({"op": "gen"})
                ops.append({"op": "make_all_uci", "list": ["a1a1"]})
                ops.append({"op": "make_uci", "s": "zz"})
                ops.append({"op": "gen"})
            add(fen, ops, "make_all_uci with the rejected move at every index, then a good list")
        else:
            ops = [{"op": "san_all"}]
            ops += [{"op": "pgn_to_bb", "s": x} for x in san_mutations(rng, sans, all_sans)]
            ops += [{"op": "uci_to_pgn", "s": x} for x in rng.sample(legal, min(len(legal), 5)) + illegal[:3]]
            add(fen, ops, "SAN of every legal move, parse-back, and strings that denote nothing / are ambiguous")
    if prop == "C13":
        for r in rng.sample(roots, min(len(roots), 150 if T else 10)):
            add(r["fen"], [{"op": "uci_batch"}, {"op": "gen"}], "all 64x64x6 move strings")
        # the same calls at arbitrary clocks: a rejected call restores the clocks too, an accepted one counts them on
        for fen in rng.sample(fens, min(len(fens), 250 if T else 16)):
            g = gen[fen]
            if not g["wf"]:
                continue
            muts = uci_mutations(rng, g["legal"], g["illegal"])
            ops = [{"op": "find_uci", "s": x} for x in g["illegal"][:6] + rng.sample(muts, min(len(muts), 6))]
            ops += [{"op": "make_uci", "s": x} for x in g["illegal"][:6] + ["zz"]]
            ops += [{"op": "walk_uci", "plies": 12, "seed": rng.randrange(1 << 30)}]
            add(with_clocks(fen, rng.choice(HMCS), rng.choice(FMNS), 14), ops, "rejected and accepted calls at arbitrary clocks")
    else:
        for r in (roots if T else rng.sample(roots, min(len(roots), 36))):
            add(r["fen"], [{"op": "dfs", "depth": 1, "mode": "san"}], "SAN at the root and after every move")
        for r in rng.sample(roots, min(len(roots), 200 if T else 8)):
            add(r["fen"], [{"op": "walk", "plies": 150 if T else 60, "seed": rng.randrange(1 << 30), "mode": "san"}], "SAN along a random game")
        for r in [r for r in roots if "ending" in r["tags"]]:
            for _ in range(8 if T else 2):
                add(r["fen"], [{"op": "walk", "plies": 120 if T else 60, "seed": rng.randrange(1 << 30), "mode": "san"}], "SAN into mates and stalemates")
    return cases, infos


def case_weight(c):
    w = 0
    for op in c["ops"]:
        k = op["op"]
        if k == "dfs":
            w += 35 ** op["depth"]
        elif k in ("walk", "line", "walk_uci"):
            w += op["plies"] * 2
        elif k == "bare_all":
            w += 70
        elif k == "perft":
            w += 35 ** op["depth"]
        elif k == "uci_batch":
            w += 50
        elif k in ("san_all", "pgn_to_bb", "uci_to_pgn"):
            w += 4
        else:
            w += 1
    return w


# --------------------------------------------------------------------------- running
def run_board_cases(prop, cases, wd, keys, nshards=None):
    """harness + TLC per shard; returns (shard results, traces, tlc infos)"""
    shards = shard(cases, nshards or NCPU * 2, case_weight)

    def one(i):
        cs = shards[i]
        tr = run_harness("board", cs, wd, "s%d" % i, prop)
        res, info = validate_trace("BoardTrace.tla", "BoardTrace.cfg", tr, wd, "s%d" % i, env={"KEYS": keys})
        return tr, res, info

    return shards, pmap(one, list(range(len(shards))))


EVAL_EVENTS = {
    "C01": ("gen", "perft"), "C02": ("make", "make_uci", "bare_done"), "C03": ("unmake", "gen", "perft", "san_all"),
    "C05": ("gen", "make", "chk"), "C06": ("gen", "make", "unmake", "load"),
    "C13": ("find_uci", "make_uci", "make_all_uci", "uci_to_pgn", "pgn_to_bb", "uci_batch"),
    "C14": ("san_all", "pgn_to_bb", "uci_to_pgn"),
}


def summarize(prop, tier, cases, results, t0, outcome, matcher, level, rule, assumptions, extra_cov=None):
    by_id = {c["id"]: c for c in cases}
    states = trans = 0
    evals = 0
    nt_keys = set()
    accepted = 0
    bad_cases = set()
    samples = []
    kinds = {}
    for tr, res, info in results:
        states += info["distinct"]
        trans += info["generated"]
        evs = read_ndjson(tr)
        for e in evs:
            kinds[e["ev"]] = kinds.get(e["ev"], 0) + 1
            if e["ev"] in EVAL_EVENTS.get(prop, ()):
                evals += 1
        for i in res.get("ntr", []):
            e = evs[i - 1]
            if prop in ("C13", "C14") and e["ev"] not in EVAL_EVENTS.get(prop, ()):
                continue
            arg = e.get("s", None)
            if arg is None and "list" in e:
                arg = " ".join(e["list"])
            nt_keys.add(e.get("snap", {}).get("fen", str(i)) + ("" if arg is None else "|" + arg))
        for k in res.get("ntk", []):
            nt_keys.add(k)
        for note in res["bad"]:
            bad_cases.add(note["c"])
            outcome.add(by_id.get(note["c"], {"id": note["c"]}), note, matcher)
        if res["nbad"] > len(res["bad"]):
            log("note: %d further mismatches in one shard not listed" % (res["nbad"] - len(res["bad"])))
        if len(samples) < 3 and evs:
            e = evs[min(len(evs) - 1, 1)]
            samples.append({"case": {k: by_id[e["c"]][k] for k in ("fen", "ops", "why")} if e["c"] in by_id else {},
                            "event": {k: (v if k != "snap" else {"fen": v.get("fen")}) for k, v in e.items()}})
    accepted = len(cases) - len(bad_cases)
    cov = {
        "states": states, "transitions": trans,
        "traces_validated_against_impl": accepted,
        "evaluations": evals, "distinct_nontrivial": len(nt_keys),
        "rule": rule, "samples": samples, "cases": len(cases), "events_by_kind": kinds,
        "checker_cmd": "java -XX:+UseSerialGC -Xss1g -cp tla2tools.jar:CommunityModules-deps.jar tlc2.TLC -workers 1 -config spec/BoardTrace.cfg spec/BoardTrace.tla (one JVM per trace shard, TRACE/KEYS/OUT in the environment)",
        "exhaustive": False,
    }
    if extra_cov:
        cov.update(extra_cov)
    rc = outcome.finish()
    write_evidence(prop, tier, level, cov, time.time() - t0, len(outcome.violations), assumptions)
    return rc


TEXT_RULE = ("cases = call scripts on one board: TLC (CaseGen.tla) supplies per position the legal moves, the illegal pseudo-legal moves, "
             "the standard SAN of every legal move and random legal lines; strings are those plus mechanical mutations and strings taken "
             "from other positions; every call is one TLC step of BoardTrace that classifies the argument (must accept / must reject / "
             "don't care) and compares result and full state snapshot. evaluations = calls; distinct_nontrivial = distinct (position, "
             "argument) pairs that TLC classified as decisive: for C13 the call must be rejected (or the list contains a rejected move, or the "
             "event enumerates all 64x64x6 strings); for C14 the string must be accepted or must be rejected (never don't-care), or the "
             "position has a legal move whose SAN needs a disambiguator, check/mate suffix, promotion or castling")
BOARD_RULE = ("cases = operation scripts (dfs to a depth over every move the generator emits, random legal games, lines made and "
              "unmade, clock sweeps) from the TLC-checked root corpus and its colour-flipped twins; every harness event "
              "(load/gen/make/unmake/...) is one TLC step of BoardTrace. evaluations = events whose oracle belongs to this "
              "property; distinct_nontrivial = distinct positions (full FEN) at gen events that TLC classified non-trivial: side to "
              "move in check, a castling right, an e.p. target, a pawn one step from promotion, or no legal move")
BOARD_ASSUME = ["the harness copies API arguments/results into JSON faithfully (no judgement in Rust)",
                "roots are well-formed positions (checked by TLC, CorpusCheck.tla) and are extended by legal moves only",
                "TLC evaluates the specification correctly; the specification itself is validated against published perft numbers (SelfTest.tla)"]


def check_board_prop(prop, tier, replay=None):
    t0 = time.time()
    wd = workdir(prop)
    rng = random.Random(seed() * 7919 + hash(prop) % 1000)
    rng = random.Random("%s-%d" % (prop, seed()))
    keys = keys_file(wd)
    if replay:
        c = json.load(open(replay))
        c["id"] = 1
        cases = [c]
    else:
        roots = corpus(wd)
        if tier == "thorough":
            roots = roots + walk_roots(wd, rng, roots, 2500)
        if prop in ("C13", "C14"):
            cases, _ = text_cases(prop, tier, roots, rng, wd)
        else:
            cases = cases_for(prop, tier, roots, rng, wd)
    log("%s: %d cases" % (prop, len(cases)))
    shards, results = run_board_cases(prop, cases, wd, keys)
    outcome = Outcome(prop)
    if prop == "C06":
        kinfo, probs = keys_check(wd, keys)
        for pr in probs:
            outcome.add({"family": "board", "fen": "8/8/8/8/8/8/8/8 b - - 0 1", "ops": [], "why": "key table extracted from probe positions"},
                        {"p": "C06", "c": 0, "ev": "keys", "w": pr, "x": "non-zero, pairwise distinct keys; e.p. key by file; pawn-hash subset"}, None)
    from findings import matcher_for
    text = prop in ("C13", "C14")
    return summarize(prop, tier, cases, results, t0, outcome, matcher_for(prop), "model_checking",
                     TEXT_RULE if text else BOARD_RULE, BOARD_ASSUME)

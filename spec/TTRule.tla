------------------------------- MODULE TTRule -------------------------------
(***************************************************************************)
(* The decisions the search takes about its transposition table, as pure   *)
(* rules.  ABTT.tla model-checks the search that is built from them (TLC   *)
(* enumerates every small game: the windowed search with the table returns *)
(* the minimax value and leaves only true bounds in the table);            *)
(* SearchTrace.tla holds every decision the real search logs (hook H6)     *)
(* against the same rules.  `dev` names a deviation ("none": the design).  *)
(* Entry types: "exact", "lower", "upper"; "none" = no entry.              *)
(***************************************************************************)
EXTENDS Integers

TMax(a, b) == IF a >= b THEN a ELSE b
TMin(a, b) == IF a <= b THEN a ELSE b

\* the type under which a node's result `best` is stored: a0 = alpha the node was entered with,
\* alpha / beta = the window at the end of the child loop (beta possibly lowered by an upper-bound entry)
StoreType(dev, best, a0, alpha, beta) ==
  IF dev = "UpperAgainstRaisedAlpha"        \* judged against the raised alpha instead of the alpha the node was entered with
  THEN (IF best <= alpha THEN "upper" ELSE IF best >= beta THEN "lower" ELSE "exact")
  ELSE IF dev = "BoundsSwapped"
  THEN (IF best <= a0 THEN "lower" ELSE IF best >= beta THEN "upper" ELSE "exact")
  ELSE IF dev = "AlwaysExact" THEN "exact"
  ELSE (IF best <= a0 THEN "upper" ELSE IF best >= beta THEN "lower" ELSE "exact")

\* an entry of type et searched to draft ed may be used at a node with r plies to go
Usable(dev, et, ed, r) == IF dev = "IgnoreDraft" THEN et # "none" ELSE et # "none" /\ ed >= r

\* what a found entry does to a node entered with the window (a0, b0):
\* [ret |-> "exact" | "cut" | "on", alpha, beta]  (ret # "on": the node returns the entry's value at once)
Probe(dev, et, ed, ev, r, a0, b0) ==
  LET use == Usable(dev, et, ed, r)
      alpha == IF use /\ et = "lower" THEN TMax(a0, ev) ELSE a0
      beta == IF use /\ et = "upper" THEN TMin(b0, ev) ELSE b0
  IN IF use /\ et = "exact" THEN [ret |-> "exact", alpha |-> a0, beta |-> b0]
     ELSE IF use /\ alpha >= beta THEN [ret |-> "cut", alpha |-> alpha, beta |-> beta]
     ELSE [ret |-> "on", alpha |-> alpha, beta |-> beta]
=============================================================================

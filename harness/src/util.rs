use std::fs::File;
use std::io::{BufRead, BufReader, BufWriter, Write};
use std::panic::{catch_unwind, AssertUnwindSafe};

use serde_json::{json, Value};

pub struct Out {
    w: BufWriter<File>,
}

impl Out {
    pub fn create(path: &str) -> Self {
        Self { w: BufWriter::new(File::create(path).unwrap_or_else(|e| panic!("cannot create {}: {}", path, e))) }
    }
    /// one event per line, flushed at once so that an aborting process still leaves what it observed
    pub fn emit(&mut self, v: &Value) {
        serde_json::to_writer(&mut self.w, v).unwrap();
        self.w.write_all(b"\n").unwrap();
        self.w.flush().unwrap();
    }
}

pub fn read_cases(path: &str) -> Vec<Value> {
    let f = File::open(path).unwrap_or_else(|e| panic!("cannot open {}: {}", path, e));
    BufReader::new(f)
        .lines()
        .map(|l| l.unwrap())
        .filter(|l| !l.trim().is_empty())
        .map(|l| serde_json::from_str(&l).unwrap_or_else(|e| panic!("bad case line {}: {}", l, e)))
        .collect()
}

/// run a call into inkayaku; a panic is an observation, not a harness failure
pub fn guarded<T>(f: impl FnOnce() -> T) -> Result<T, String> {
    catch_unwind(AssertUnwindSafe(f)).map_err(|e| {
        if let Some(s) = e.downcast_ref::<&str>() {
            (*s).to_string()
        } else if let Some(s) = e.downcast_ref::<String>() {
            s.clone()
        } else {
            "panic".to_string()
        }
    })
}

pub fn quiet_panics() {
    // IKV_LOUD=1: keep the default hook (message and location on stderr) while debugging a case by hand
    if std::env::var("IKV_LOUD").is_ok() { return; }
    std::panic::set_hook(Box::new(|_| {}));
}

/// 64-bit word as four 16-bit limbs, most significant first (TLC integers are 32-bit)
pub fn limbs(x: u64) -> Value {
    json!([(x >> 48) & 0xffff, (x >> 32) & 0xffff, (x >> 16) & 0xffff, x & 0xffff])
}

/// name of the square with the implementation's shift index (a8 = 0 … h1 = 63)
pub fn shift_name(shift: u32) -> String {
    let file = (shift % 8) as u8;
    let rank = 8 - (shift / 8) as u8;
    format!("{}{}", (b'a' + file) as char, (b'0' + rank) as char)
}

/// the set bits of an occupancy word as square names, in spec order (a1, b1, … h8)
pub fn word_squares(w: u64) -> Value {
    let mut names: Vec<(u32, String)> = Vec::new();
    for shift in 0..64u32 {
        if w & (1u64 << shift) != 0 {
            let file = shift % 8;
            let rank = 7 - shift / 8;
            names.push((rank * 8 + file, shift_name(shift)));
        }
    }
    names.sort();
    Value::Array(names.into_iter().map(|(_, n)| Value::String(n)).collect())
}

pub fn str_of(v: &Value, k: &str) -> String {
    v.get(k).and_then(|x| x.as_str()).unwrap_or("").to_string()
}
pub fn u64_of(v: &Value, k: &str, d: u64) -> u64 {
    v.get(k).and_then(|x| x.as_u64()).unwrap_or(d)
}

------------------------------- MODULE Chess -------------------------------
(***************************************************************************)
(* The rules of chess as an executable TLA+ definition.                    *)
(*                                                                         *)
(* Deliberately independent of the implementation: squares are numbered    *)
(* a1 = 0 .. h8 = 63 (file = s % 8, rank = s \div 8) whereas inkayaku      *)
(* numbers a8 = 0 .. h1 = 63; a board is a function square -> piece code,  *)
(* not twelve bit words; attacks are found by walking rays.  Only text     *)
(* (square names, UCI move strings, FEN) crosses the boundary to the code. *)
(*                                                                         *)
(* A position is a record                                                  *)
(*   [bd  : 0..63 -> 0..12,   piece placement (0 = empty, 1..6 = white     *)
(*                            P N B R Q K, 7..12 = black p n b r q k)      *)
(*    stm : {"w","b"},        side to move                                 *)
(*    cr  : SUBSET {"K","Q","k","q"},  castling rights                     *)
(*    ep  : -1..63,           en-passant target square or -1               *)
(*    hmc : Nat,              half-move clock                              *)
(*    fmn : Nat]              full-move number                             *)
(***************************************************************************)
EXTENDS Integers, Sequences, FiniteSets

Squares == 0 .. 63
FileOf(s) == s % 8
RankOf(s) == s \div 8
Sq(f, r) == r * 8 + f
OnBoard(f, r) == f \in 0 .. 7 /\ r \in 0 .. 7

FileNames == <<"a", "b", "c", "d", "e", "f", "g", "h">>
RankNames == <<"1", "2", "3", "4", "5", "6", "7", "8">>
SqName == [s \in Squares |-> FileNames[FileOf(s) + 1] \o RankNames[RankOf(s) + 1]]

\* piece codes
Empty == 0
WP == 1  WN == 2  WB == 3  WR == 4  WQ == 5  WK == 6
BP == 7  BN == 8  BB == 9  BR == 10 BQ == 11 BK == 12
\* kind: 1 pawn 2 knight 3 bishop 4 rook 5 queen 6 king
KindOf(p) == IF p > 6 THEN p - 6 ELSE p
ColorOf(p) == IF p = 0 THEN "-" ELSE IF p <= 6 THEN "w" ELSE "b"
Piece(c, k) == IF c = "w" THEN k ELSE k + 6
Other(c) == IF c = "w" THEN "b" ELSE "w"

A1 == 0  B1 == 1  C1 == 2  D1 == 3  E1 == 4  F1 == 5  G1 == 6  H1 == 7
A8 == 56 B8 == 57 C8 == 58 D8 == 59 E8 == 60 F8 == 61 G8 == 62 H8 == 63

(***************************************************************************)
(* Geometry: rays and leaper targets, computed once (constant operators    *)
(* are cached by TLC).                                                     *)
(***************************************************************************)
\* directions 1..4 orthogonal (rook), 5..8 diagonal (bishop)
DF == <<1, -1, 0, 0, 1, 1, -1, -1>>
DR == <<0, 0, 1, -1, 1, -1, 1, -1>>

RayLen(s, d) ==
  LET f == FileOf(s)  r == RankOf(s)
  IN Cardinality({k \in 1 .. 7 : OnBoard(f + k * DF[d], r + k * DR[d])})

\* Ray[s][d] = sequence of the squares met when leaving s in direction d
Ray == [s \in Squares |-> [d \in 1 .. 8 |->
          [k \in 1 .. RayLen(s, d) |-> Sq(FileOf(s) + k * DF[d], RankOf(s) + k * DR[d])]]]

KnightD == {<<1, 2>>, <<2, 1>>, <<2, -1>>, <<1, -2>>, <<-1, -2>>, <<-2, -1>>, <<-2, 1>>, <<-1, 2>>}
KingD == {<<1, 0>>, <<1, 1>>, <<0, 1>>, <<-1, 1>>, <<-1, 0>>, <<-1, -1>>, <<0, -1>>, <<1, -1>>}
Leap(s, D) == {Sq(FileOf(s) + d[1], RankOf(s) + d[2]) :
                 d \in {e \in D : OnBoard(FileOf(s) + e[1], RankOf(s) + e[2])}}
KnightT == [s \in Squares |-> Leap(s, KnightD)]
KingT == [s \in Squares |-> Leap(s, KingD)]

\* squares a pawn of colour c standing on s attacks
PawnAtt == [c \in {"w", "b"} |-> [s \in Squares |->
             Leap(s, IF c = "w" THEN {<<1, 1>>, <<-1, 1>>} ELSE {<<1, -1>>, <<-1, -1>>})]]
\* squares from which a pawn of colour c attacks s
PawnAttFrom == [c \in {"w", "b"} |-> [s \in Squares |-> PawnAtt[Other(c)][s]]]

\* index of the first occupied square on a ray, or Len+1
FirstBlock(bd, ray) ==
  LET occ == {i \in 1 .. Len(ray) : bd[ray[i]] # 0}
  IN IF occ = {} THEN Len(ray) + 1 ELSE CHOOSE i \in occ : \A j \in occ : i <= j

\* squares reached by sliding from s in direction d: empty squares and the first blocker
SlideReach(bd, s, d) ==
  LET ray == Ray[s][d]  n == FirstBlock(bd, ray)
  IN {ray[i] : i \in 1 .. (IF n > Len(ray) THEN Len(ray) ELSE n)}

(***************************************************************************)
(* Attacks and check                                                       *)
(***************************************************************************)
\* is square s attacked by a piece of colour c on board bd
Attacked(bd, s, c) ==
  \/ \E t \in KnightT[s] : bd[t] = Piece(c, 2)
  \/ \E t \in KingT[s] : bd[t] = Piece(c, 6)
  \/ \E t \in PawnAttFrom[c][s] : bd[t] = Piece(c, 1)
  \/ \E d \in 1 .. 8 :
       LET ray == Ray[s][d]  n == FirstBlock(bd, ray)
       IN n <= Len(ray) /\
          LET p == bd[ray[n]]
          IN \/ p = Piece(c, 5)
             \/ d <= 4 /\ p = Piece(c, 4)
             \/ d > 4 /\ p = Piece(c, 3)

KingSquares(bd, c) == {s \in Squares : bd[s] = Piece(c, 6)}
\* colour c is in check (some king of c attacked; with exactly one king: that king)
InCheck(bd, c) == \E k \in KingSquares(bd, c) : Attacked(bd, k, Other(c))

(***************************************************************************)
(* Moves.  A move is [from, to, promo (0 or kind 2..5), kind] with         *)
(* kind \in {"n", "double", "ep", "castle"}.                               *)
(***************************************************************************)
Mv(f, t, p, k) == [from |-> f, to |-> t, promo |-> p, kind |-> k]
PromoLetter == <<"", "n", "b", "r", "q", "k">>   \* index = kind (1 unused -> "")
Uci(m) == SqName[m.from] \o SqName[m.to] \o (IF m.promo = 0 THEN "" ELSE PromoLetter[m.promo])

PawnMoves(pos, s) ==
  LET bd == pos.bd
      c == pos.stm
      up == IF c = "w" THEN 1 ELSE -1
      startR == IF c = "w" THEN 1 ELSE 6
      lastR == IF c = "w" THEN 7 ELSE 0
      f == FileOf(s)  r == RankOf(s)
      one == Sq(f, r + up)
      two == Sq(f, r + 2 * up)
      Promos(t) == IF RankOf(t) = lastR THEN {Mv(s, t, k, "n") : k \in 2 .. 5} ELSE {Mv(s, t, 0, "n")}
      pushes == IF OnBoard(f, r + up) /\ bd[one] = 0
                THEN Promos(one) \cup
                     (IF r = startR /\ bd[two] = 0 THEN {Mv(s, two, 0, "double")} ELSE {})
                ELSE {}
      caps == UNION {Promos(t) : t \in {u \in PawnAtt[c][s] : ColorOf(bd[u]) = Other(c)}}
      eps == {Mv(s, t, 0, "ep") : t \in {u \in PawnAtt[c][s] : u = pos.ep}}
  IN pushes \cup caps \cup eps

PieceMoves(pos, s) ==
  LET bd == pos.bd
      c == pos.stm
      k == KindOf(bd[s])
      Free(T) == {Mv(s, t, 0, "n") : t \in {u \in T : ColorOf(bd[u]) # c}}
  IN CASE k = 1 -> PawnMoves(pos, s)
       [] k = 2 -> Free(KnightT[s])
       [] k = 6 -> Free(KingT[s])
       [] k = 3 -> Free(UNION {SlideReach(bd, s, d) : d \in 5 .. 8})
       [] k = 4 -> Free(UNION {SlideReach(bd, s, d) : d \in 1 .. 4})
       [] k = 5 -> Free(UNION {SlideReach(bd, s, d) : d \in 1 .. 8})

\* castling: right present, king and rook at home, squares between empty,
\* king not in check and not passing over or landing on an attacked square
CastleMoves(pos) ==
  LET bd == pos.bd
      c == pos.stm
      o == Other(c)
      base == IF c = "w" THEN 0 ELSE 56
      kr == IF c = "w" THEN "K" ELSE "k"
      qr == IF c = "w" THEN "Q" ELSE "q"
      home == bd[base + 4] = Piece(c, 6)
      ks == /\ kr \in pos.cr /\ home /\ bd[base + 7] = Piece(c, 4)
            /\ bd[base + 5] = 0 /\ bd[base + 6] = 0
            /\ ~Attacked(bd, base + 4, o) /\ ~Attacked(bd, base + 5, o) /\ ~Attacked(bd, base + 6, o)
      qs == /\ qr \in pos.cr /\ home /\ bd[base] = Piece(c, 4)
            /\ bd[base + 1] = 0 /\ bd[base + 2] = 0 /\ bd[base + 3] = 0
            /\ ~Attacked(bd, base + 4, o) /\ ~Attacked(bd, base + 3, o) /\ ~Attacked(bd, base + 2, o)
  IN (IF ks THEN {Mv(base + 4, base + 6, 0, "castle")} ELSE {}) \cup
     (IF qs THEN {Mv(base + 4, base + 2, 0, "castle")} ELSE {})

PseudoLegal(pos) ==
  UNION {PieceMoves(pos, s) : s \in {t \in Squares : ColorOf(pos.bd[t]) = pos.stm}}
  \cup CastleMoves(pos)

\* placement after a move (no legality assumed)
BoardAfter(bd, m) ==
  LET p == bd[m.from]
      c == ColorOf(p)
      placed == IF m.promo = 0 THEN p ELSE Piece(c, m.promo)
      b1 == [bd EXCEPT ![m.from] = 0, ![m.to] = placed]
  IN CASE m.kind = "ep" ->
            [b1 EXCEPT ![Sq(FileOf(m.to), RankOf(m.from))] = 0]
       [] m.kind = "castle" ->
            IF FileOf(m.to) = 6
            THEN [b1 EXCEPT ![Sq(7, RankOf(m.from))] = 0, ![Sq(5, RankOf(m.from))] = Piece(c, 4)]
            ELSE [b1 EXCEPT ![Sq(0, RankOf(m.from))] = 0, ![Sq(3, RankOf(m.from))] = Piece(c, 4)]
       [] OTHER -> b1

LegalMove(pos, m) == ~InCheck(BoardAfter(pos.bd, m), pos.stm)
Legal(pos) == {m \in PseudoLegal(pos) : LegalMove(pos, m)}

IsCapture(pos, m) == pos.bd[m.to] # 0 \/ m.kind = "ep"
NonQuiet(pos) == {m \in Legal(pos) : IsCapture(pos, m) \/ m.promo # 0}

\* rights lost because a piece leaves or lands on a home corner / king square
RightsLost(m) ==
  LET T(s) == CASE s = E1 -> {"K", "Q"} [] s = H1 -> {"K"} [] s = A1 -> {"Q"}
                [] s = E8 -> {"k", "q"} [] s = H8 -> {"k"} [] s = A8 -> {"q"}
                [] OTHER -> {}
  IN T(m.from) \cup T(m.to)

\* the successor position (Appendix B.1 of DESIGN.md)
Apply(pos, m) ==
  LET bd == pos.bd
      pawn == KindOf(bd[m.from]) = 1
      cap == IsCapture(pos, m)
  IN [bd |-> BoardAfter(bd, m),
      stm |-> Other(pos.stm),
      cr |-> pos.cr \ RightsLost(m),
      ep |-> IF m.kind = "double" THEN Sq(FileOf(m.from), (RankOf(m.from) + RankOf(m.to)) \div 2) ELSE -1,
      hmc |-> IF pawn \/ cap THEN 0 ELSE pos.hmc + 1,
      fmn |-> IF pos.stm = "b" THEN pos.fmn + 1 ELSE pos.fmn]

IsMate(pos) == InCheck(pos.bd, pos.stm) /\ Legal(pos) = {}
IsStalemate(pos) == ~InCheck(pos.bd, pos.stm) /\ Legal(pos) = {}

\* the side that just moved did not leave its own king attacked
IsValid(pos) == ~InCheck(pos.bd, Other(pos.stm))

(***************************************************************************)
(* Well-formedness of a root position (what the board object assumes).     *)
(***************************************************************************)
WellFormed(pos) ==
  /\ Cardinality(KingSquares(pos.bd, "w")) = 1
  /\ Cardinality(KingSquares(pos.bd, "b")) = 1
  /\ ~InCheck(pos.bd, Other(pos.stm))
  /\ \A s \in Squares : KindOf(pos.bd[s]) = 1 => RankOf(s) \in 1 .. 6
  /\ ("K" \in pos.cr => pos.bd[E1] = WK /\ pos.bd[H1] = WR)
  /\ ("Q" \in pos.cr => pos.bd[E1] = WK /\ pos.bd[A1] = WR)
  /\ ("k" \in pos.cr => pos.bd[E8] = BK /\ pos.bd[H8] = BR)
  /\ ("q" \in pos.cr => pos.bd[E8] = BK /\ pos.bd[A8] = BR)
  /\ (pos.ep # -1 =>
        LET up == IF pos.stm = "w" THEN 1 ELSE -1
        IN /\ RankOf(pos.ep) = (IF pos.stm = "w" THEN 5 ELSE 2)
           /\ pos.bd[pos.ep] = 0
           /\ pos.bd[pos.ep + 8 * up] = 0
           /\ pos.bd[pos.ep - 8 * up] = Piece(Other(pos.stm), 1))

(***************************************************************************)
(* Colour flip: mirror vertically, swap colours, side and rights.          *)
(***************************************************************************)
FlipSq(s) == Sq(FileOf(s), 7 - RankOf(s))
FlipPiece(p) == IF p = 0 THEN 0 ELSE IF p <= 6 THEN p + 6 ELSE p - 6
FlipRight(x) == CASE x = "K" -> "k" [] x = "Q" -> "q" [] x = "k" -> "K" [] x = "q" -> "Q"
Flip(pos) ==
  [bd |-> [s \in Squares |-> FlipPiece(pos.bd[FlipSq(s)])],
   stm |-> Other(pos.stm),
   cr |-> {FlipRight(x) : x \in pos.cr},
   ep |-> IF pos.ep = -1 THEN -1 ELSE FlipSq(pos.ep),
   hmc |-> pos.hmc,
   fmn |-> pos.fmn]
FlipMove(m) == [from |-> FlipSq(m.from), to |-> FlipSq(m.to), promo |-> m.promo, kind |-> m.kind]

\* perft by the definition
RECURSIVE PerftCount(_, _)
PerftCount(pos, d) ==
  IF d = 0 THEN 1
  ELSE LET L == Legal(pos)
       IN IF d = 1 THEN Cardinality(L)
          ELSE LET RECURSIVE Sum(_)
                   Sum(S) == IF S = {} THEN 0
                             ELSE LET m == CHOOSE x \in S : TRUE
                                  IN PerftCount(Apply(pos, m), d - 1) + Sum(S \ {m})
               IN Sum(L)
=============================================================================

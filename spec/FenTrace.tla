------------------------------ MODULE FenTrace ------------------------------
(* C12: every string handed to Fen::from_str / Bitboard::from_fen_string is one step: TLC classifies the   *)
(* string (must accept / must reject / don't care), decodes it with its own parser, and compares.         *)
EXTENDS Fen, Json, IOUtils, TLC

Rec == ndJsonDeserialize(IOEnv.TRACE)
VARIABLES l, bad, nbad, ntr, ncls
vars == <<l, bad, nbad, ntr, ncls>>
Ev == Rec[l]

Fails(chks) == SelectSeq(chks, LAMBDA c : ~c[1])
Record(chks) ==
  LET f == Fails(chks)
      ns == [i \in 1 .. Len(f) |-> [c |-> Ev.c, l |-> l, ev |-> Ev.ev, p |-> "C12", w |-> f[i][2], x |-> f[i][3]]]
  IN nbad' = nbad + Len(ns) /\ bad' = IF Len(bad) >= 60 THEN bad ELSE bad \o ns

FenEvent ==
  /\ Ev.ev = "fen"
  /\ LET cls == FenClass(Ev.s)
         pf == ParseFen(Ev.s)
         p == pf.pos
         cmp == Ev.st = "ok" /\ pf.ok /\ Ev.s # "startpos"    \* both sides decoded it: the decodings must agree
     IN /\ Record(
            << <<Ev.st \in {"ok", "err"}, "parser must not panic on " \o Ev.s \o ": " \o Ev.st, "ok or err">>,
               <<Ev.valid = (Ev.st = "ok") \/ Ev.st \notin {"ok", "err"}, "Fen::is_valid agrees with from_str", ToString(Ev.st = "ok")>>,
               <<cls = "accept" => Ev.st = "ok", "canonical FEN of a legal position must be accepted: " \o Ev.s, "ok">>,
               <<cls = "reject" => Ev.st # "ok", "string breaking the FEN grammar must be rejected: " \o Ev.s, "err">>,
               <<cmp => Ev.dec.cells = CellsOf(p.bd), "piece placement decoded from " \o Ev.s, CellsOf(p.bd)>>,
               <<cmp => Ev.dec.stm = p.stm, "side to move", p.stm>>,
               <<cmp => Ev.dec.cr = RenderRights(p.cr), "castling rights", RenderRights(p.cr)>>,
               <<cmp => (Ev.dec.ep = RenderEp(p.ep) \/ RenderEp(p.ep) = "a8"), "en-passant square", RenderEp(p.ep)>>,
               <<cmp => Ev.dec.hmc = Canon(pf.hmcS), "half-move clock", Canon(pf.hmcS)>>,
               <<cmp => Ev.dec.fmn = Canon(pf.fmnS), "full-move number", Canon(pf.fmnS)>>,
               <<(cmp /\ cls = "accept") => Ev.rendered = RenderFenS(p, pf.hmcS, pf.fmnS), "writing the position back gives the canonical FEN",
                 RenderFenS(p, pf.hmcS, pf.fmnS)>> >>)
        /\ ntr' = IF cls # "dontcare" THEN ntr \cup {l} ELSE ntr
        /\ ncls' = [ncls EXCEPT ![cls] = @ + 1]

\* the harness process died while handling this case
Panic ==
  /\ Ev.ev = "panic"
  /\ Record(<< <<FALSE, "process aborted during " \o Ev.during \o ": " \o Ev.msg, "no abort">> >>)
  /\ UNCHANGED <<ntr, ncls>>

Next == l <= Len(Rec) /\ l' = l + 1 /\ (FenEvent \/ Panic)
Init == l = 1 /\ bad = <<>> /\ nbad = 0 /\ ntr = {} /\ ncls = [c \in {"accept", "reject", "dontcare"} |-> 0]
Spec == Init /\ [][Next]_vars
Report == (l = Len(Rec) + 1) => JsonSerialize(IOEnv.OUT, [lines |-> Len(Rec), nbad |-> nbad, bad |-> bad, ntr |-> ntr, ncls |-> ncls])
Consumed == \/ TLCGet("stats").diameter - 1 = Len(Rec)
            \/ PrintT(<<"NOT CONSUMED", TLCGet("stats").diameter - 1, Len(Rec)>>) /\ FALSE
=============================================================================

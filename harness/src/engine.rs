//! `engine` family (C07 C09 C16, and go-results for C08 C10 C11): sessions on the in-process
//! `Engine<CommandUciTx>`.  The harness is the GUI: it sends commands, records every message the engine
//! emits, and (hooks H5) can arm an abort at a chosen negamax node and read back the search thread's position.
//!
//! Case: {"id":n, "steps":[ {"t":"newgame"} | {"t":"position","fen":..,"moves":[..]} |
//!   {"t":"go", "depth":n?, "movetime":ms?, "wtime":ms?, "btime":ms?, "winc":ms?, "binc":ms?, "movestogo":n?, "nodes":n?,
//!    "mate":n?, "infinite":bool?, "searchmoves":[..], "abort_at":n?, "abort_kind":1|2, "stop_after_ms":ms?, "ponderhit_after_ms":ms?} |
//!   {"t":"stop"} | {"t":"isready"} | {"t":"debug","on":bool} | {"t":"probe_fen"} | {"t":"fresh"} |
//!   {"t":"abort_sweep","depth":d,"searchmoves":[..],"max":k,"seed":s} ] }
use std::str::FromStr;
use std::sync::mpsc::{channel, Receiver};
use std::sync::Arc;
use std::time::{Duration, Instant};

use inkayaku_core::fen::Fen;
use inkayaku_engine_core::{verif, Engine};
use inkayaku_uci::command::CommandUciTx;
use inkayaku_uci::{Go, Info, Score, UciCommand, UciEngine, UciMove, UciTxCommand};
use rand::rngs::StdRng;
use rand::seq::SliceRandom;
use rand::SeedableRng;
use serde_json::{json, Map, Value};

use crate::util::{quiet_panics, read_cases, str_of, Out, u64_of};

const NUM_KEYS: [&str; 11] = ["depth", "seldepth", "time", "nodes", "multipv", "currmovenumber", "hashfull", "nps", "tbhits", "sbhits", "cpuload"];
pub(crate) const WATCHDOG: Duration = Duration::from_secs(60);

pub(crate) fn score_json(s: Option<Score>) -> Value {
    match s {
        Some(Score::Centipawn { score }) => json!({"kind": "cp", "v": score.to_string(), "bound": "none"}),
        Some(Score::CentipawnBounded { score, bound }) => json!({"kind": "cp", "v": score.to_string(), "bound": bound.to_string()}),
        Some(Score::Mate { mate_in }) => json!({"kind": "mate", "v": mate_in.to_string(), "bound": "none"}),
        None => json!({"kind": "none", "v": "0", "bound": "none"}),
    }
}

fn opt<T: ToString>(v: Option<T>) -> Value {
    Value::String(v.map_or_else(|| "none".to_string(), |x| x.to_string()))
}

/// same shape as UciOut!ParseEngineLine produces for a raw line
fn info_json(info: &Info) -> Value {
    let mut num = Map::new();
    for k in NUM_KEYS {
        num.insert(k.to_string(), json!("none"));
    }
    num.insert("depth".into(), opt(info.depth));
    num.insert("seldepth".into(), opt(info.selective_depth));
    num.insert("time".into(), opt(info.time.map(|d| d.as_millis())));
    num.insert("nodes".into(), opt(info.nodes));
    num.insert("multipv".into(), opt(info.multi_pv));
    num.insert("currmovenumber".into(), opt(info.current_move_number));
    num.insert("hashfull".into(), opt(info.hash_full));
    num.insert("nps".into(), opt(info.nps));
    num.insert("tbhits".into(), opt(info.table_hits));
    num.insert("sbhits".into(), opt(info.shredder_table_hits));
    num.insert("cpuload".into(), opt(info.cpu_load));
    let pv: Vec<String> = info.principal_variation.as_ref().map(|p| p.iter().map(|m| m.to_string()).collect()).unwrap_or_default();
    json!({"ok": true, "kind": "info", "num": num, "pv": pv, "haspv": info.principal_variation.is_some(),
           "score": score_json(info.score), "best": "none", "ponder": "none"})
}

fn bestmove_json(best: &Option<UciMove>, ponder: &Option<UciMove>) -> Value {
    let mut num = Map::new();
    for k in NUM_KEYS {
        num.insert(k.to_string(), json!("none"));
    }
    json!({"ok": true, "kind": "bestmove", "num": num, "pv": [], "haspv": false, "score": score_json(None),
           "best": opt(best.as_ref()), "ponder": opt(ponder.as_ref())})
}

fn other_json(kind: &str) -> Value {
    let mut num = Map::new();
    for k in NUM_KEYS {
        num.insert(k.to_string(), json!("none"));
    }
    json!({"ok": true, "kind": kind, "num": num, "pv": [], "haspv": false, "score": score_json(None), "best": "none", "ponder": "none"})
}

fn other_kind(c: &UciTxCommand) -> Option<&'static str> {
    match c {
        UciTxCommand::IdName { .. } | UciTxCommand::IdAuthor { .. } => Some("id"),
        UciTxCommand::Ok => Some("uciok"),
        UciTxCommand::ReadyOk => Some("readyok"),
        UciTxCommand::Registration { .. } => Some("registration"),
        UciTxCommand::CopyProtection { .. } => Some("copyprotection"),
        _ => None,
    }
}

struct Session<'a> {
    out: &'a mut Out,
    id: u64,
    engine: Engine<CommandUciTx>,
    rx: Receiver<UciTxCommand>,
    fen: String,
    moves: Vec<String>,
    dead: bool,
}

pub(crate) fn new_engine() -> (Engine<CommandUciTx>, Receiver<UciTxCommand>) {
    let (tx, rx) = channel();
    (Engine::new(Arc::new(CommandUciTx::new(tx)), false), rx)
}

fn ms(v: &Value, k: &str) -> Option<Duration> {
    v.get(k).and_then(Value::as_u64).map(Duration::from_millis)
}

pub(crate) fn build_go(step: &Value) -> (Go, Vec<String>, bool) {
    let sm: Vec<String> = step.get("searchmoves").and_then(|x| x.as_array()).map(|a| a.iter().map(|m| m.as_str().unwrap_or("").to_string()).collect()).unwrap_or_default();
    let go = Go {
        search_moves: sm.iter().filter_map(|s| UciMove::from_str(s).ok()).collect(),
        ponder: false,
        white_time: ms(step, "wtime"),
        black_time: ms(step, "btime"),
        white_increment: ms(step, "winc"),
        black_increment: ms(step, "binc"),
        moves_to_go: step.get("movestogo").and_then(Value::as_u64),
        depth: step.get("depth").and_then(Value::as_u64),
        nodes: step.get("nodes").and_then(Value::as_u64),
        mate: step.get("mate").and_then(Value::as_u64),
        move_time: ms(step, "movetime"),
        infinite: step.get("infinite").and_then(Value::as_bool).unwrap_or(false),
    };
    let limited = go.move_time.is_some() || go.white_time.is_some() || go.black_time.is_some() || go.infinite;
    (go, sm, limited)
}

impl<'a> Session<'a> {
    fn emit_in(&mut self, cmd: &str, extra: Value) {
        let mut e = json!({"c": self.id, "ev": "in", "cmd": cmd});
        for (k, v) in extra.as_object().unwrap() {
            e[k] = v.clone();
        }
        self.out.emit(&e);
    }

    /// record engine output until the bestmove arrives (or the watchdog expires / the channel closes).
    /// `stop` is sent once `stop_after` has elapsed, whether or not output keeps flowing; a search that floods
    /// output (e.g. `go infinite` on a forced mate iterates thousands of depths per second) is logged up to a
    /// cap and then only counted.
    fn drain_until_bestmove(&mut self, stop_after: Option<Duration>, ponderhit_after: Option<Duration>) {
        self.drain_until_bestmove_with(stop_after, ponderhit_after, None)
    }

    /// `during`: a position command (fen, moves) sent after the given time while the search is running.  The engine drops such a
    /// command; the session's own idea of the current position is therefore left alone.
    fn drain_until_bestmove_with(&mut self, stop_after: Option<Duration>, ponderhit_after: Option<Duration>, during: Option<(Duration, String, Vec<String>)>) {
        let mut during = during;
        const MAX_LOGGED: usize = 400;
        let started = Instant::now();
        let mut stop_sent = stop_after.is_none();
        let mut hit_sent = ponderhit_after.is_none();
        let mut logged = 0usize;
        let mut skipped = 0u64;
        let mut last_msg = Instant::now();
        let mut stop_at: Option<Instant> = None;
        loop {
            // a search that keeps reporting but does not end within the watchdog time after it was told to stop never answers
            let overdue = match stop_at { Some(t) => t.elapsed() >= WATCHDOG, None => started.elapsed() >= WATCHDOG * 4 };
            if overdue {
                self.out.emit(&json!({"c": self.id, "ev": "timeout", "why": "no bestmove: the search keeps running long after it should have ended (60 s after stop / 240 s in all)"}));
                self.dead = true;
                // the search thread cannot be ended from here and would keep a core and the message channel busy: leave the process
                // (the driver records the exit and restarts the harness on the remaining cases)
                std::process::exit(3);
            }
            if let Some((at, fen, moves)) = during.clone() {
                if started.elapsed() >= at {
                    during = None;
                    self.emit_in("position", json!({"fen": fen, "moves": moves}));
                    if let Ok(f) = Fen::from_str(&fen) {
                        self.engine.accept(UciCommand::PositionFrom { fen: f, moves: moves.iter().filter_map(|m| UciMove::from_str(m).ok()).collect() });
                    }
                }
            }
            // a ponderhit in the middle of the search (the engine does not ponder: the command must change nothing that is reported)
            if !hit_sent && started.elapsed() >= ponderhit_after.unwrap() {
                hit_sent = true;
                self.emit_in("ponderhit", json!({}));
                self.engine.accept(UciCommand::PonderHit);
            }
            if !stop_sent && started.elapsed() >= stop_after.unwrap() {
                stop_sent = true;
                stop_at = Some(Instant::now());
                self.emit_in("stop", json!({}));
                self.engine.accept(UciCommand::Stop);
            }
            if logged >= MAX_LOGGED && !stop_sent {
                // nothing more to learn from this search: end it
                stop_sent = true;
                stop_at = Some(Instant::now());
                self.emit_in("stop", json!({}));
                self.engine.accept(UciCommand::Stop);
            }
            let wait = if stop_sent { WATCHDOG.saturating_sub(last_msg.elapsed()).max(Duration::from_millis(1)) }
                       else { stop_after.unwrap().saturating_sub(started.elapsed()).max(Duration::from_micros(200)) };
            let wait = match &during { Some((at, _, _)) => wait.min(at.saturating_sub(started.elapsed()).max(Duration::from_micros(200))), None => wait };
            let wait = if hit_sent { wait } else { wait.min(ponderhit_after.unwrap().saturating_sub(started.elapsed()).max(Duration::from_micros(200))) };
            match self.rx.recv_timeout(wait) {
                Ok(UciTxCommand::Info { info }) => {
                    last_msg = Instant::now();
                    if logged < MAX_LOGGED {
                        logged += 1;
                        let m = info_json(&info);
                        self.out.emit(&json!({"c": self.id, "ev": "out", "m": m}));
                    } else {
                        skipped += 1;
                    }
                }
                Ok(UciTxCommand::BestMove { best_move, ponder_move }) => {
                    if skipped > 0 {
                        self.out.emit(&json!({"c": self.id, "ev": "truncated", "skipped": skipped}));
                    }
                    let m = bestmove_json(&best_move, &ponder_move);
                    self.out.emit(&json!({"c": self.id, "ev": "out", "m": m}));
                    return;
                }
                Ok(other) => {
                    if let Some(k) = other_kind(&other) {
                        self.out.emit(&json!({"c": self.id, "ev": "out", "m": other_json(k)}));
                    }
                }
                Err(std::sync::mpsc::RecvTimeoutError::Timeout) => {
                    if stop_sent && last_msg.elapsed() >= WATCHDOG {
                        self.out.emit(&json!({"c": self.id, "ev": "timeout", "why": "no bestmove within 60 s"}));
                        self.dead = true;
                        return;
                    }
                }
                Err(std::sync::mpsc::RecvTimeoutError::Disconnected) => {
                    self.out.emit(&json!({"c": self.id, "ev": "timeout", "why": "engine output channel closed (search thread died)"}));
                    self.dead = true;
                    return;
                }
            }
        }
    }

    /// record the GUI-side thread's replies until `last` has been seen (they are sent synchronously by accept())
    fn collect_replies(&mut self, last: &str, count: usize) {
        let mut seen = 0;
        while seen < count {
            match self.rx.recv_timeout(Duration::from_secs(10)) {
                Ok(UciTxCommand::Info { info }) => { let m = info_json(&info); self.out.emit(&json!({"c": self.id, "ev": "out", "m": m})); }
                Ok(other) => {
                    if let Some(k) = other_kind(&other) {
                        self.out.emit(&json!({"c": self.id, "ev": "out", "m": other_json(k)}));
                        if k == last { seen += 1; }
                    }
                }
                Err(_) => return,
            }
        }
    }

    fn position(&mut self, fen: &str, moves: &[String]) {
        self.emit_in("position", json!({"fen": fen, "moves": moves}));
        let f = match Fen::from_str(fen) {
            Ok(f) => f,
            Err(_) => return,
        };
        let mv: Vec<UciMove> = moves.iter().filter_map(|m| UciMove::from_str(m).ok()).collect();
        self.fen = fen.to_string();
        self.moves = moves.to_vec();
        self.engine.accept(UciCommand::PositionFrom { fen: f, moves: mv });
    }

    fn go(&mut self, step: &Value) {
        let (go, sm, limited) = build_go(step);
        let at = step.get("abort_at").and_then(Value::as_u64);
        let kind = step.get("abort_kind").and_then(Value::as_u64).unwrap_or(0) as u8;
        match at {
            Some(n) => verif::arm_abort(n, kind),
            None => verif::disarm_abort(),
        }
        verif::take_iterations();
        self.emit_in("go", json!({"searchmoves": sm, "limited": limited || at.is_some(), "params": step}));
        self.engine.accept(UciCommand::Go { go });
        let during = step.get("position_during").map(|p| (Duration::from_millis(u64_of(p, "after_ms", 50)), str_of(p, "fen"),
                                                         p.get("moves").and_then(|x| x.as_array()).map(|a| a.iter().map(|m| m.as_str().unwrap_or("").to_string()).collect()).unwrap_or_default()));
        self.drain_until_bestmove_with(ms(step, "stop_after_ms"), ms(step, "ponderhit_after_ms"), during);
        verif::disarm_abort();
    }

    /// thousands of short searches on one engine instance (state carried from go to go: counters, tables, stored pv);
    /// recorded compactly: per position, the distinct (bestmove, first pv move, ponder) answers with their counts
    fn burst(&mut self, step: &Value) {
        let cap = step.get("n").and_then(Value::as_u64).unwrap_or(1000);
        // keep going until the engine has visited this many negamax nodes in total (hook H5 reports them per iteration)
        let want_nodes = step.get("nodes").and_then(Value::as_u64).unwrap_or(0);
        let mut nodes: u64 = 0;
        let mut n: u64 = 0;
        let positions: Vec<Value> = step.get("positions").and_then(|p| p.as_array()).cloned().unwrap_or_default();
        if positions.is_empty() { return; }
        let gop = step.get("go").cloned().unwrap_or(json!({"depth": 1}));
        let mut tallies: Vec<std::collections::BTreeMap<(String, String, String), u64>> = vec![Default::default(); positions.len()];
        verif::disarm_abort();
        verif::take_iterations();
        for i in 0..cap {
            if want_nodes > 0 && nodes >= want_nodes { break; }
            n = i + 1;
            let k = (i as usize) % positions.len();
            let fen = str_of(&positions[k], "fen");
            let moves: Vec<String> = positions[k].get("moves").and_then(|x| x.as_array()).map(|a| a.iter().map(|m| m.as_str().unwrap_or("").to_string()).collect()).unwrap_or_default();
            let f = match Fen::from_str(&fen) { Ok(f) => f, Err(_) => continue };
            self.engine.accept(UciCommand::PositionFrom { fen: f, moves: moves.iter().filter_map(|m| UciMove::from_str(m).ok()).collect() });
            let (go, _, _) = build_go(&gop);
            self.engine.accept(UciCommand::Go { go });
            let mut pv1 = "none".to_string();
            let started = Instant::now();
            loop {
                match self.rx.recv_timeout(WATCHDOG) {
                    Ok(UciTxCommand::Info { info }) => {
                        if let Some(pv) = &info.principal_variation { if let Some(m) = pv.first() { pv1 = m.to_string(); } }
                    }
                    Ok(UciTxCommand::BestMove { best_move, ponder_move }) => {
                        let key = (best_move.map_or("none".to_string(), |m| m.to_string()), pv1.clone(), ponder_move.map_or("none".to_string(), |m| m.to_string()));
                        *tallies[k].entry(key).or_insert(0) += 1;
                        nodes += verif::take_iterations().last().map_or(1, |x| x.1.max(1));
                        break;
                    }
                    Ok(_) => {}
                    Err(_) => {
                        self.out.emit(&json!({"c": self.id, "ev": "timeout", "why": format!("burst: go number {} got no bestmove ({} ms)", i + 1, started.elapsed().as_millis())}));
                        self.dead = true;
                        return;
                    }
                }
                if started.elapsed() >= WATCHDOG {
                    self.out.emit(&json!({"c": self.id, "ev": "timeout", "why": format!("burst: go number {} keeps running ({} ms)", i + 1, started.elapsed().as_millis())}));
                    self.dead = true;
                    std::process::exit(3);
                }
            }
        }
        for (k, t) in tallies.iter().enumerate() {
            let answers: Vec<Value> = t.iter().map(|((b, p, q), c)| json!([b, p, q, c.to_string()])).collect();
            self.out.emit(&json!({"c": self.id, "ev": "burst", "fen": str_of(&positions[k], "fen"), "moves": positions[k].get("moves").cloned().unwrap_or(json!([])),
                                  "go": gop, "n": n.to_string(), "nodes": nodes.to_string(), "answers": answers}));
        }
        self.fen = str_of(&positions[((n as usize) + positions.len() - 1) % positions.len()], "fen");
    }

    fn probe_fen(&mut self) {
        match self.engine.verif_dump_fen(Duration::from_secs(20)) {
            Some(f) => self.out.emit(&json!({"c": self.id, "ev": "probe", "what": "fen", "fen": f})),
            None => {
                self.out.emit(&json!({"c": self.id, "ev": "timeout", "why": "search thread does not answer the position read-back"}));
                self.dead = true;
            }
        }
    }

    /// depth-1 score of a fresh engine for the session's current position
    fn fresh_score(fen: &str, moves: &[String]) -> Option<Value> {
        let (mut e, rx) = new_engine();
        let f = Fen::from_str(fen).ok()?;
        e.accept(UciCommand::PositionFrom { fen: f, moves: moves.iter().filter_map(|m| UciMove::from_str(m).ok()).collect() });
        e.accept(UciCommand::Go { go: Go { depth: Some(1), ..Go::default() } });
        let mut last = None;
        let r = loop {
            match rx.recv_timeout(WATCHDOG) {
                Ok(UciTxCommand::Info { info }) => { if info.score.is_some() { last = info.score; } }
                Ok(UciTxCommand::BestMove { .. }) => break Some(score_json(last)),
                Ok(_) => {}
                Err(_) => break None,
            }
        };
        if r.is_some() { e.accept(UciCommand::Quit); }
        r
    }

    fn quit(&mut self) {
        if !self.dead {
            self.engine.accept(UciCommand::Quit);
        }
        // a dead engine is leaked: its thread may be stuck or gone; the process ends after the run anyway
    }
}

fn run_steps(out: &mut Out, id: u64, steps: &[Value]) {
    let (engine, rx) = new_engine();
    out.emit(&json!({"c": id, "ev": "start"}));
    let mut s = Session { out, id, engine, rx, fen: "rnbqkbnr/pppppppp/8/8/8/8/PPPPPPPP/RNBQKBNR w KQkq - 0 1".to_string(), moves: vec![], dead: false };
    for step in steps {
        if s.dead {
            break;
        }
        match str_of(step, "t").as_str() {
            "newgame" => { s.emit_in("ucinewgame", json!({})); s.engine.accept(UciCommand::UciNewGame); }
            "isready" => { s.emit_in("isready", json!({})); s.engine.accept(UciCommand::IsReady); s.collect_replies("readyok", 1); }
            "uci" => { s.emit_in("uci", json!({})); s.engine.accept(UciCommand::Uci); s.collect_replies("uciok", 1); }
            "register" => {
                if step.get("later").and_then(Value::as_bool).unwrap_or(false) {
                    s.emit_in("registerlater", json!({}));
                    s.engine.accept(UciCommand::RegisterLater);
                } else {
                    s.emit_in("register", json!({}));
                    s.engine.accept(UciCommand::Register { name: "a b".to_string(), code: "1 2".to_string() });
                    s.collect_replies("registration", 2);
                }
            }
            "debug" => { let on = step.get("on").and_then(Value::as_bool).unwrap_or(true); s.emit_in("debug", json!({"on": on})); s.engine.accept(UciCommand::SetDebug { debug: on }); }
            "stop" => { s.emit_in("stop", json!({})); s.engine.accept(UciCommand::Stop); }
            "position" => {
                let moves: Vec<String> = step.get("moves").and_then(|x| x.as_array()).map(|a| a.iter().map(|m| m.as_str().unwrap_or("").to_string()).collect()).unwrap_or_default();
                s.position(&str_of(step, "fen"), &moves);
            }
            "go" => s.go(step),
            "burst" => s.burst(step),
            "probe_fen" => s.probe_fen(),
            "fresh" => {
                match Session::fresh_score(&s.fen, &s.moves) {
                    Some(sc) => s.out.emit(&json!({"c": id, "ev": "probe", "what": "fresh", "score": sc})),
                    None => s.out.emit(&json!({"c": id, "ev": "timeout", "why": "fresh engine gave no answer"})),
                }
            }
            _ => {}
        }
    }
    s.out.emit(&json!({"c": id, "ev": "end"}));
    s.quit();
}

/// Enumerate interruption points of one search: learn the per-iteration negamax node counts from an
/// uninterrupted run, then for node indices beyond the end of iteration 1 (the unmodified engine polls
/// only every 100,000 nodes, so earlier points are not behaviours of the code) and both abort flavours
/// run: position, go (aborted at that node), read back the position, go depth 1, compare with a fresh engine.
fn abort_sweep(out: &mut Out, id0: u64, case: &Value, step: &Value) -> u64 {
    let fen = str_of(case, "fen");
    let moves: Vec<String> = case.get("moves").and_then(|x| x.as_array()).map(|a| a.iter().map(|m| m.as_str().unwrap_or("").to_string()).collect()).unwrap_or_default();
    let depth = step.get("depth").and_then(Value::as_u64).unwrap_or(3);
    let sm = step.get("searchmoves").cloned().unwrap_or(json!([]));
    // learning run
    let (mut e, rx) = new_engine();
    let f = match Fen::from_str(&fen) { Ok(f) => f, Err(_) => return 0 };
    e.accept(UciCommand::PositionFrom { fen: f, moves: moves.iter().filter_map(|m| UciMove::from_str(m).ok()).collect() });
    verif::disarm_abort();
    verif::take_iterations();
    let (go, _, _) = build_go(&json!({"depth": depth, "searchmoves": sm}));
    e.accept(UciCommand::Go { go });
    loop {
        match rx.recv_timeout(WATCHDOG) {
            Ok(UciTxCommand::BestMove { .. }) => break,
            Ok(_) => {}
            Err(_) => return 0,
        }
    }
    e.accept(UciCommand::Quit);
    let iters = verif::take_iterations();
    if iters.len() < 2 {
        return 0;
    }
    let n1 = iters[0].1;
    let n = iters[iters.len() - 1].1;
    let mut points: Vec<(u64, u8)> = Vec::new();
    for at in (n1 + 1)..=n {
        points.push((at, 1));
        points.push((at, 2));
    }
    let max = step.get("max").and_then(Value::as_u64).unwrap_or(u64::MAX) as usize;
    if points.len() > max {
        let mut rng = StdRng::seed_from_u64(step.get("seed").and_then(Value::as_u64).unwrap_or(0));
        points.shuffle(&mut rng);
        points.truncate(max);
        points.sort();
    }
    let fresh = Session::fresh_score(&fen, &moves);
    let mut k = 0;
    for (at, kind) in points {
        k += 1;
        let id = id0 * 1_000_000 + k;
        let (engine, rx) = new_engine();
        out.emit(&json!({"c": id, "ev": "start", "sweep": {"iters": iters, "at": at, "kind": kind}}));
        let mut s = Session { out, id, engine, rx, fen: fen.clone(), moves: moves.clone(), dead: false };
        s.position(&fen, &moves);
        s.go(&json!({"depth": depth, "searchmoves": sm, "abort_at": at, "abort_kind": kind}));
        if !s.dead { s.probe_fen(); }
        if !s.dead { s.go(&json!({"depth": 1})); }
        if !s.dead {
            if let Some(sc) = &fresh {
                s.out.emit(&json!({"c": id, "ev": "probe", "what": "fresh", "score": sc}));
            }
        }
        s.out.emit(&json!({"c": id, "ev": "end"}));
        s.quit();
    }
    k
}

pub fn run(args: &[String]) -> i32 {
    quiet_panics();
    let cases = read_cases(&args[0]);
    let mut out = Out::create(&args[1]);
    for case in cases {
        let id = case.get("id").and_then(Value::as_u64).unwrap_or(0);
        let steps: Vec<Value> = case.get("steps").and_then(|s| s.as_array()).cloned().unwrap_or_default();
        if let Some(sw) = steps.iter().find(|s| str_of(s, "t") == "abort_sweep") {
            let n = abort_sweep(&mut out, id, &case, sw);
            eprintln!("case {}: {} abort schedules", id, n);
        } else {
            run_steps(&mut out, id, &steps);
        }
    }
    0
}

"""property id -> check function(tier, replay) for everything that is not a plain board-trace check"""
import tablefam
import tablesfam

CHECKS = {
    "C04": tablesfam.check,
    "C18": tablefam.check,
}

---------------------------- MODULE CorpusCheck ----------------------------
(* Every root position that reaches the implementation is first checked here: it must parse, be      *)
(* well-formed (one king each, side not to move not in check, rights/e.p. consistent), render back   *)
(* to the same text, and so must its colour-flipped twin, which is produced HERE (by the spec).     *)
EXTENDS Fen, Json, IOUtils

Roots == ndJsonDeserialize(IOEnv.ROOTS)

Checked ==
  [i \in 1 .. Len(Roots) |->
     LET f == Roots[i].fen
         pf == ParseFen(f)
         p == pf.pos
         ok == pf.ok /\ WellFormed(p) /\ RenderFen(p) = f /\ WellFormed(Flip(p)) /\ Flip(Flip(p)) = p
     IN [fen |-> f, tags |-> Roots[i].tags, ok |-> ok,
         flip |-> IF pf.ok THEN RenderFen(Flip(p)) ELSE "",
         nmoves |-> IF ok THEN Cardinality(Legal(p)) ELSE 0]]

ASSUME JsonSerialize(IOEnv.OUT, Checked)
ASSUME \A i \in 1 .. Len(Roots) : Checked[i].ok \/ PrintT(<<"ILL-FORMED ROOT", Roots[i].fen>>)

VARIABLE x
Init == x = 0
Next == UNCHANGED x
=============================================================================

//! `search` family (C08 C10 C11): fixed-depth searches with the static evaluations of the reference tree
//! (hook H2), evaluation pairs under colour flip, terminal evaluations, and the repetition counter (hook H3).
//! Cases:
//!  {"id":n,"k":"godepth","fen":..,"moves":[..],"d":d,"searchmoves":[..],"warm":[{"fen":..,"d":d}..],"cap":N,"ttcap":K}
//!  {"id":n,"k":"eval","fen":..}                       static_eval(board, true) and (board, false)
//!  {"id":n,"k":"reps","len":L,"hmax":H}               every equality pattern of length L x start x half-move clock
use std::collections::HashMap;
use std::str::FromStr;

use inkayaku_board::Bitboard;
use inkayaku_core::fen::Fen;
use inkayaku_engine_core::verif;
use inkayaku_uci::{UciCommand, UciEngine, UciMove, UciTxCommand};
use serde_json::{json, Map, Value};

use crate::engine::{build_go, new_engine, score_json, WATCHDOG};
use crate::util::{guarded, quiet_panics, read_cases, str_of, u64_of, Out};

fn fen4(b: &Bitboard) -> String {
    let f = Fen::from(b).fen;
    f.split(' ').take(4).collect::<Vec<_>>().join(" ")
}

/// the engine's evaluation of the position as such (clocks neutral), white-centric
fn ongoing(key: &str) -> i32 {
    let b = Bitboard::from_fen_string(&format!("{} 0 1", key)).expect("own FEN");
    verif::static_eval(&b, true)
}

fn qcollect(b: &mut Bitboard, tbl: &mut HashMap<String, i32>, cap: usize) -> bool {
    let key = fen4(b);
    if tbl.contains_key(&key) {
        return true;
    }
    tbl.insert(key.clone(), ongoing(&key));
    if tbl.len() > cap {
        return false;
    }
    for mv in b.generate_pseudo_legal_non_quiescent_moves() {
        b.make(mv);
        let ok = if b.is_valid() { qcollect(b, tbl, cap) } else { true };
        b.unmake(mv);
        if !ok {
            return false;
        }
    }
    true
}

fn collect(b: &mut Bitboard, d: u64, sm: &[String], root: bool, tbl: &mut HashMap<String, i32>, cap: usize) -> bool {
    let mut legal = b.generate_legal_moves();
    if root && !sm.is_empty() && legal.iter().any(|m| sm.contains(&m.to_uci_string())) {
        legal.retain(|m| sm.contains(&m.to_uci_string()));
    }
    if legal.is_empty() {
        return true;
    }
    if d == 0 {
        return qcollect(b, tbl, cap);
    }
    for mv in legal {
        b.make(mv);
        let ok = collect(b, d - 1, sm, false, tbl, cap);
        b.unmake(mv);
        if !ok {
            return false;
        }
    }
    true
}

/// Candidate search for forced mates (NOT an oracle: its output is a certificate that TLC verifies move by move).
/// Attacker to move: a move after which `mate_def` succeeds.  {"m": move, "r": [replies]}
fn mate_att(b: &mut Bitboard, n: u32) -> Option<Value> {
    for mv in b.generate_legal_moves() {
        b.make(mv);
        let r = mate_def(b, n);
        b.unmake(mv);
        if let Some(replies) = r {
            return Some(json!({"m": mv.to_uci_string(), "r": replies}));
        }
    }
    None
}

/// Defender to move, the attacker has `n - 1` moves left: every reply answered by a mating continuation.  [{"u": reply, "c": cert}]
fn mate_def(b: &mut Bitboard, n: u32) -> Option<Vec<Value>> {
    let legal = b.generate_legal_moves();
    if legal.is_empty() {
        return if b.is_current_in_check() { Some(vec![]) } else { None };
    }
    if n <= 1 {
        return None;
    }
    let mut out = Vec::new();
    for mv in legal {
        b.make(mv);
        let c = mate_att(b, n - 1);
        b.unmake(mv);
        match c {
            Some(c) => out.push(json!({"u": mv.to_uci_string(), "c": c})),
            None => return None,
        }
    }
    Some(out)
}

fn strs(v: &Value, k: &str) -> Vec<String> {
    v.get(k).and_then(|x| x.as_array()).map(|a| a.iter().map(|m| m.as_str().unwrap_or("").to_string()).collect()).unwrap_or_default()
}

fn godepth(out: &mut Out, id: u64, case: &Value) {
    let fen = str_of(case, "fen");
    let moves = strs(case, "moves");
    let sm = strs(case, "searchmoves");
    let d = u64_of(case, "d", 1);
    let cap = u64_of(case, "cap", 60000) as usize;
    // the table first: positions whose reference tree is too large are skipped, not searched
    let noeval = case.get("noeval").and_then(Value::as_bool).unwrap_or(false);
    let tbl = guarded(|| {
        if noeval {
            return (true, HashMap::new());      // this case is judged without a reference value
        }
        let mut b = Bitboard::from_fen_string(&fen).expect("case FEN");
        for m in &moves {
            b.make_uci(m).expect("case move");
        }
        let mut tbl = HashMap::new();
        let ok = collect(&mut b, d, &sm, true, &mut tbl, cap);
        (ok, tbl)
    });
    let (complete, tbl) = match tbl {
        Ok(x) => x,
        Err(m) => { out.emit(&json!({"c": id, "ev": "panic", "during": "reference tree walk", "msg": m, "p": "C08"})); return; }
    };
    if !complete {
        out.emit(&json!({"c": id, "ev": "skipped", "fen": fen, "d": d, "why": "reference tree larger than the cap"}));
        return;
    }
    let (mut e, rx) = new_engine();
    let mut warmed = 0;
    if let Some(warm) = case.get("warm").and_then(|w| w.as_array()) {
        for w in warm {
            if let Ok(f) = Fen::from_str(&str_of(w, "fen")) {
                e.accept(UciCommand::PositionFrom { fen: f, moves: vec![] });
                let (go, _, _) = build_go(&json!({"depth": u64_of(w, "d", 2)}));
                e.accept(UciCommand::Go { go });
                loop {
                    match rx.recv_timeout(WATCHDOG) { Ok(UciTxCommand::BestMove { .. }) => break, Ok(_) => {}, Err(_) => break }
                }
                warmed += 1;
            }
        }
    }
    // earlier position commands on the same engine (another game before this one): must not influence the result
    let mut pre_n = 0;
    if let Some(pre) = case.get("pre").and_then(|w| w.as_array()) {
        for w in pre {
            if let Ok(f) = Fen::from_str(&str_of(w, "fen")) {
                e.accept(UciCommand::PositionFrom { fen: f, moves: strs(w, "moves").iter().filter_map(|m| UciMove::from_str(m).ok()).collect() });
                pre_n += 1;
            }
        }
    }
    let f = Fen::from_str(&fen).expect("case FEN");
    e.accept(UciCommand::PositionFrom { fen: f, moves: moves.iter().filter_map(|m| UciMove::from_str(m).ok()).collect() });
    let (go, _, _) = build_go(&json!({"depth": d, "searchmoves": sm}));
    let ttcap = u64_of(case, "ttcap", 0);
    verif::arm_tt_log(ttcap);
    e.accept(UciCommand::Go { go });
    let mut score = None;
    let mut pv: Vec<String> = Vec::new();
    let mut depth_seen = 0;
    let (best, ponder, st) = loop {
        match rx.recv_timeout(WATCHDOG) {
            Ok(UciTxCommand::Info { info }) => {
                if info.score.is_some() {
                    score = info.score;
                    depth_seen = info.depth.unwrap_or(0);
                    pv = info.principal_variation.as_ref().map(|p| p.iter().map(|m| m.to_string()).collect()).unwrap_or_default();
                }
            }
            Ok(UciTxCommand::BestMove { best_move, ponder_move }) => break (best_move.map_or("none".to_string(), |m| m.to_string()), ponder_move.map_or("none".to_string(), |m| m.to_string()), "ok"),
            Ok(_) => {}
            Err(_) => break ("none".to_string(), "none".to_string(), "timeout"),
        }
    };
    if st == "ok" {
        e.accept(UciCommand::Quit);
    }
    let mut evals = Map::new();
    for (k, v) in &tbl {
        evals.insert(k.clone(), json!(v));
    }
    // forced-mate cases: a second certificate, for the position after the move the engine chose
    let mate_n = u64_of(case, "n", 0) as u32;
    let cert2 = if mate_n > 0 && best != "none" {
        guarded(|| {
            let mut b = Bitboard::from_fen_string(&fen).expect("case FEN");
            if b.make_uci(&best).is_err() { return Value::Null; }
            mate_def(&mut b, mate_n).map_or(Value::Null, |r| json!(r))
        }).unwrap_or(Value::Null)
    } else { Value::Null };
    let has2 = !cert2.is_null();
    out.emit(&json!({"c": id, "ev": "godepth", "cert": case.get("cert").cloned().unwrap_or(json!({"m": "", "r": []})), "n": mate_n,
                     "certd": case.get("certd").cloned().unwrap_or(json!([])), "nd": u64_of(case, "nd", 0),
                     "cert2": if has2 { cert2 } else { json!([]) }, "has2": has2, "fen": fen, "moves": moves, "d": d, "searchmoves": sm, "st": st, "score": score_json(score), "depth_seen": depth_seen,
                     "pv": pv, "best": best, "ponder": ponder, "evals": evals, "tree": tbl.len(), "warm": warmed, "ref": str_of(case, "ref"),
                     "contempt": verif::contempt(), "mode": str_of(case, "mode"), "flipof": u64_of(case, "flipof", 0), "cycle": strs(case, "cycle"), "pre": pre_n}));
    // the search's transposition-table decisions in order (hook H6), as logged: nothing is judged here
    if ttcap > 0 {
        let (log, dropped) = verif::take_tt_log();
        verif::arm_tt_log(0);
        let rows: Vec<Value> = log.iter().map(|t| json!([t.kind, format!("{:016x}", t.key), t.draft, t.a0, t.b0, t.alpha, t.beta, t.e_depth, t.e_value, t.e_type, t.e_mv_value, t.outcome, t.best])).collect();
        out.emit(&json!({"c": id, "ev": "ttlog", "fen": fen, "d": d, "rows": rows, "dropped": dropped.to_string(), "st": st}));
    }
}

pub fn run(args: &[String]) -> i32 {
    quiet_panics();
    let cases = read_cases(&args[0]);
    let mut out = Out::create(&args[1]);
    for case in cases {
        let id = u64_of(&case, "id", 0);
        match str_of(&case, "k").as_str() {
            "godepth" => godepth(&mut out, id, &case),
            // candidate forced mate in <= 3: certificate first, then the search to depth 2N-1
            "matego" => {
                let fen = str_of(&case, "fen");
                let found = guarded(|| {
                    let mut b = Bitboard::from_fen_string(&fen).expect("case FEN");
                    for n in 1..=3u32 {
                        if let Some(c) = mate_att(&mut b, n) { return Some((n, c)); }
                    }
                    None
                });
                match found {
                    Ok(Some((n, cert))) => {
                        let mut c2 = case.clone();
                        let o = c2.as_object_mut().expect("case object");
                        o.insert("n".to_string(), json!(n));
                        o.insert("cert".to_string(), cert);
                        o.insert("d".to_string(), json!(2 * n - 1));
                        o.insert("mode".to_string(), json!("mate"));
                        o.insert("noeval".to_string(), json!(true));
                        godepth(&mut out, id, &c2);
                        // the other side of the same certificate: after the certified first move the defender is to move and is mated
                        // within n - 1 further moves whatever it does; search that position to depth 2 (n - 1)
                        if n >= 2 {
                            let after = guarded(|| {
                                let mut b = Bitboard::from_fen_string(&fen).expect("case FEN");
                                let m = c2.get("cert").and_then(|c| c.get("m")).and_then(Value::as_str).unwrap_or("").to_string();
                                b.make_uci(&m).ok().map(|_| Fen::from(&b).fen)
                            });
                            if let Ok(Some(after_fen)) = after {
                                let mut c3 = case.clone();
                                let o = c3.as_object_mut().expect("case object");
                                o.insert("fen".to_string(), json!(after_fen));
                                o.insert("n".to_string(), json!(0));
                                o.insert("nd".to_string(), json!(n));
                                o.insert("certd".to_string(), c2.get("cert").and_then(|c| c.get("r")).cloned().unwrap_or(json!([])));
                                o.insert("d".to_string(), json!(2 * (n - 1)));
                                o.insert("mode".to_string(), json!("mated"));
                                o.insert("noeval".to_string(), json!(true));
                                o.insert("warm".to_string(), json!([]));
                                godepth(&mut out, id, &c3);
                            }
                        }
                    }
                    Ok(None) => out.emit(&json!({"c": id, "ev": "skipped", "fen": fen, "d": 0, "why": "the candidate search finds no forced mate in 3"})),
                    Err(m) => out.emit(&json!({"c": id, "ev": "panic", "during": "candidate mate search", "msg": m, "p": "C01"})),
                }
            }
            "eval" => {
                let fen = str_of(&case, "fen");
                let r = guarded(|| {
                    let b = Bitboard::from_fen_string(&fen).expect("case FEN");
                    (verif::static_eval(&b, true), verif::static_eval(&b, false))
                });
                match r {
                    Ok((a, t)) => out.emit(&json!({"c": id, "ev": "eval", "fen": fen, "ongoing": a, "terminal": t, "pair": u64_of(&case, "pair", 0)})),
                    Err(m) => out.emit(&json!({"c": id, "ev": "panic", "during": "static_eval", "msg": m, "p": "C11"})),
                }
            }
            "reps" => {
                // every equality pattern of the history against its last entry: bit i of n set = entry i equals entry `start`
                let len = u64_of(&case, "len", 8);
                let hmax = u64_of(&case, "hmax", 10);
                let base = u64_of(&case, "base", 0);
                let mut rows = Vec::new();
                for n in 0..(1u64 << len) {
                    let mut h = verif::VerifHistory::default();
                    for i in 0..len {
                        // the current entry (index base+len) has hash 1; others 1 if their bit is set, else a distinct value
                        h.set((base + i) as u16, if n & (1 << i) != 0 { 1 } else { 1000 + i });
                    }
                    h.set((base + len) as u16, 1);
                    for hmc in 0..=hmax {
                        rows.push(json!([n, hmc, h.count_repetitions((base + len) as u16, hmc as u16)]));
                    }
                }
                out.emit(&json!({"c": id, "ev": "reps", "len": len, "base": base, "hmax": hmax, "rows": rows}));
            }
            _ => {}
        }
    }
    0
}

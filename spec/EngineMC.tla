------------------------------- MODULE EngineMC -------------------------------
(***************************************************************************)
(* Code-shaped design model of the UCI engine: a (well-behaved) GUI, the   *)
(* FIFO channel of SearchMessages and the search thread, with one action   *)
(* per critical section of engine_core/src/engine/search.rs:               *)
(*   IdleRecv        idle(): recv one message (position / go / quit / ...) *)
(*   EnterNode       search_negamax entry: poll every PollEvery nodes      *)
(*                   (check_messages drains the channel; move-time test),  *)
(*                   node counter, horizon / move-less test                *)
(*   Descend         make(mv) and recurse                                  *)
(*   ReturnFromChild stop flag test after the child, else unmake           *)
(*   NodeDone        all children searched                                 *)
(*   FinishIteration best_move(): accept/reject, time test, next depth or  *)
(*                   bestmove                                              *)
(* over a toy game (positions 0..5).  All interleavings of GUI commands    *)
(* (incl. stop and quit at any moment while waiting) with search steps are *)
(* explored.  Dev* constants switch on what the PINNED tree did wrong, so  *)
(* that TLC must rediscover those defects (a test of the model itself).    *)
(***************************************************************************)
EXTENDS Integers, Sequences, FiniteSets, TLC

CONSTANTS
  MaxIter,        \* iterative deepening never goes beyond this depth in the model
  PollEvery,      \* the code polls every 100,000 negamax nodes; here every PollEvery nodes
  MaxGo,          \* number of go commands the GUI issues
  DevNoUnmake,    \* TRUE = pinned tree: the abort path returns without unmake
  DevZeroBudget,  \* TRUE = pinned tree: a completed iteration is dropped when the budget is used up
  DevRootRepetition, \* TRUE = pinned tree: the repetition test also runs at the root of the search
  DevStalePonder, \* TRUE = pinned tree: the ponder move is taken from whatever principal variation is stored, even from an earlier search
  DevPartialIteration \* TRUE = a seeded change: an interrupted iteration that has searched some root move is accepted like a completed one

\* ---- toy game: positions 0..5, moves named by strings; position 5 has no legal move
Moves == [p \in 0 .. 5 |->
  CASE p = 0 -> << <<"a", 1>>, <<"b", 2>> >>
    [] p = 1 -> << <<"c", 3>>, <<"d", 4>> >>
    [] p = 2 -> << <<"e", 4>>, <<"f", 5>> >>
    [] p = 3 -> << <<"g", 0>> >>
    [] p = 4 -> << <<"h", 5>>, <<"i", 3>> >>
    [] OTHER -> << >> ]
LegalOf(p) == {Moves[p][i][1] : i \in 1 .. Len(Moves[p])}
Roots == {0, 4, 5}
Limits == {"depth1", "depthMax", "timed", "infinite"}

\* the real engine cannot observe a stop or a time-out during iteration 1 (<= 219 nodes < 100,000)
ASSUME PollEvery > 3

VARIABLES
  chan,      \* GUI -> search thread, FIFO
  gui,       \* "idle" | "waiting" | "quit"
  sent,      \* number of go commands sent
  answers,   \* bestmove messages received for the current go
  sentPos,   \* ghost: position of the last position command the GUI sent
  mode,      \* search thread: "idle" | "search" | "exit"
  board,     \* the single board of the search thread
  root,      \* ghost: board at StartGo
  limit,     \* limit of the running go
  iter,      \* current iteration depth
  stack,     \* recursion: frames [pos |-> board before any child move, idx |-> next child]
  phase,     \* "enter" | "loop" | "ret" | "top"
  nodes,     \* negamax node counter modulo the poll interval
  stop, quit,\* flags
  timeup,    \* ghost: the time budget is exhausted (monotone)
  best,      \* best move of the last accepted iteration, or "none"
  whole,     \* ghost: every iteration accepted in this search ran to its end (C09: the answer of an interrupted search is that of the last COMPLETED iteration)
  lastBest,  \* what was announced
  lastRoot,  \* ghost: position the search thread had been given when it announced
  given,     \* ghost: position of the last processed position command
  pvOf,      \* root position the stored principal variation belongs to (-1: none); survives between searches, as in the code
  rep,       \* the position of the last processed position command has already occurred three times in the supplied game history
  rootCut,   \* the root of the current iteration returned a move-less leaf
  lastPonderOf \* root position of the principal variation the announced ponder move was taken from (-1: no ponder move)

gv == <<chan, gui, sent, answers, sentPos>>
sv == <<mode, board, root, limit, iter, stack, phase, nodes, stop, quit, timeup, best, whole, lastBest, lastRoot, given, pvOf, rep, rootCut, lastPonderOf>>
vars == <<chan, gui, sent, answers, sentPos, mode, board, root, limit, iter, stack, phase, nodes, stop, quit, timeup, best, whole, lastBest, lastRoot, given, pvOf, rep, rootCut, lastPonderOf>>

Init ==
  /\ chan = << >> /\ gui = "idle" /\ sent = 0 /\ answers = 0 /\ sentPos = 0
  /\ mode = "idle" /\ board = 0 /\ root = 0 /\ limit = "depth1" /\ iter = 0
  /\ stack = << >> /\ phase = "top" /\ nodes = 0 /\ stop = FALSE /\ quit = FALSE /\ timeup = FALSE
  /\ best = "none" /\ whole = TRUE /\ lastBest = "none" /\ lastRoot = 0 /\ given = 0 /\ pvOf = -1 /\ lastPonderOf = -1 /\ rep = FALSE /\ rootCut = FALSE

\* ------------------------------------------------------------------ GUI (well-behaved)
GuiPositionGo ==
  /\ gui = "idle" /\ sent < MaxGo
  /\ \E p \in Roots, lim \in Limits, r \in BOOLEAN :
       /\ chan' = chan \o << [t |-> "position", p |-> p, rep |-> r], [t |-> "go", l |-> lim] >>
       /\ sentPos' = p
  /\ gui' = "waiting" /\ sent' = sent + 1 /\ answers' = 0
  /\ UNCHANGED sv
GuiGoAgain ==   \* go without a new position command (C09)
  /\ gui = "idle" /\ sent < MaxGo /\ sent > 0
  /\ chan' = Append(chan, [t |-> "go", l |-> "depth1"])
  /\ gui' = "waiting" /\ sent' = sent + 1 /\ answers' = 0
  /\ UNCHANGED sentPos /\ UNCHANGED sv
GuiStop ==
  /\ gui = "waiting" /\ ~(\E i \in 1 .. Len(chan) : chan[i].t = "stop")
  /\ chan' = Append(chan, [t |-> "stop"])
  /\ UNCHANGED <<gui, sent, answers, sentPos>> /\ UNCHANGED sv
GuiQuit ==
  /\ gui \in {"idle", "waiting"} /\ sent = MaxGo
  /\ chan' = Append(chan, [t |-> "quit"])
  /\ gui' = "quit" /\ UNCHANGED <<sent, answers, sentPos>> /\ UNCHANGED sv

\* ------------------------------------------------------------------ search thread
Drain(msgs) ==  \* effect of check_messages on the flags: <<stop, quit>>
  << \E i \in 1 .. Len(msgs) : msgs[i].t \in {"stop", "quit"},
     \E i \in 1 .. Len(msgs) : msgs[i].t = "quit" >>

IdleRecv ==
  /\ mode = "idle" /\ chan # << >>
  /\ LET m == Head(chan) IN
     /\ chan' = Tail(chan)
     /\ CASE m.t = "position" ->
               /\ board' = m.p /\ given' = m.p /\ rep' = m.rep
               /\ UNCHANGED <<mode, root, limit, iter, stack, phase, nodes, stop, quit, timeup, best, whole, lastBest, lastRoot, pvOf, rootCut, lastPonderOf>>
          [] m.t = "go" ->      \* reset_for_go + go(): flags cleared, node counter reset
               /\ mode' = "search" /\ root' = board /\ limit' = m.l /\ iter' = 1
               /\ stack' = << [pos |-> board, idx |-> 1] >> /\ phase' = "enter"
               /\ nodes' = 0 /\ stop' = FALSE /\ quit' = FALSE /\ timeup' = FALSE /\ best' = "none" /\ whole' = TRUE
               /\ UNCHANGED <<board, lastBest, lastRoot, given, pvOf, rep, rootCut, lastPonderOf>>
          [] m.t = "quit" -> /\ mode' = "exit"
               /\ UNCHANGED <<board, root, limit, iter, stack, phase, nodes, stop, quit, timeup, best, whole, lastBest, lastRoot, given, pvOf, rep, rootCut, lastPonderOf>>
          [] OTHER -> UNCHANGED sv      \* stop while idle is ignored
  /\ UNCHANGED <<gui, sent, answers, sentPos>>

Top == stack[Len(stack)]
Ply == Len(stack) - 1
Pop == SubSeq(stack, 1, Len(stack) - 1)
Timed == limit = "timed"

\* entry of search_negamax: poll, count, horizon test
EnterNode ==
  /\ mode = "search" /\ phase = "enter"
  /\ LET poll == nodes = PollEvery
         fl == IF poll THEN Drain(chan) ELSE <<FALSE, FALSE>>
     IN
     /\ chan' = IF poll THEN << >> ELSE chan
     /\ quit' = (quit \/ fl[2])
     /\ \/ \* time is up at a poll point: flag set, return leaf(0) from this very node
           /\ poll /\ Timed
           /\ timeup' = TRUE /\ stop' = TRUE
           /\ stack' = Pop /\ phase' = IF Len(stack) = 1 THEN "top" ELSE "ret"
           /\ UNCHANGED <<nodes, board, rootCut>>
        \/ \* normal entry
           /\ stop' = (stop \/ fl[1]) /\ UNCHANGED timeup
           /\ nodes' = IF nodes >= PollEvery THEN 1 ELSE nodes + 1
           /\ LET repLeaf == rep /\ board = given /\ (Ply > 0 \/ DevRootRepetition)      \* the game position reached again: a draw leaf
              IN /\ IF repLeaf \/ Ply = iter \/ Len(Moves[board]) = 0
                    THEN /\ stack' = Pop /\ phase' = IF Len(stack) = 1 THEN "top" ELSE "ret"   \* leaf
                    ELSE /\ phase' = "loop" /\ UNCHANGED stack
                 /\ rootCut' = IF Ply = 0 THEN repLeaf ELSE rootCut
           /\ UNCHANGED board
  /\ UNCHANGED <<gui, sent, answers, sentPos, mode, root, limit, iter, best, whole, lastBest, lastRoot, given, pvOf, rep, lastPonderOf>>

\* for mv in buffer: make(mv); recurse
Descend ==
  /\ mode = "search" /\ phase = "loop" /\ Top.idx <= Len(Moves[Top.pos])
  /\ board' = Moves[Top.pos][Top.idx][2]                                  \* make
  /\ stack' = Append(stack, [pos |-> Moves[Top.pos][Top.idx][2], idx |-> 1])
  /\ phase' = "enter"
  /\ UNCHANGED <<chan, gui, sent, answers, sentPos, mode, root, limit, iter, nodes, stop, quit, timeup, best, whole, lastBest, lastRoot, given, pvOf, rep, rootCut, lastPonderOf>>

\* the child returned
ReturnFromChild ==
  /\ mode = "search" /\ phase = "ret"
  /\ IF stop
     THEN \* abort path
          /\ board' = IF DevNoUnmake THEN board ELSE Top.pos
          /\ stack' = Pop /\ phase' = IF Len(stack) = 1 THEN "top" ELSE "ret"
     ELSE /\ board' = Top.pos                                               \* unmake
          /\ stack' = [stack EXCEPT ![Len(stack)].idx = @ + 1]
          /\ phase' = "loop"
  /\ UNCHANGED <<chan, gui, sent, answers, sentPos, mode, root, limit, iter, nodes, stop, quit, timeup, best, whole, lastBest, lastRoot, given, pvOf, rep, rootCut, lastPonderOf>>

\* all children searched
NodeDone ==
  /\ mode = "search" /\ phase = "loop" /\ Top.idx > Len(Moves[Top.pos])
  /\ stack' = Pop /\ phase' = IF Len(stack) = 1 THEN "top" ELSE "ret"
  /\ UNCHANGED <<chan, gui, sent, answers, sentPos, mode, board, root, limit, iter, nodes, stop, quit, timeup, best, whole, lastBest, lastRoot, given, pvOf, rep, rootCut, lastPonderOf>>

\* back in best_move(): accept or reject the iteration, maybe go deeper, else announce
DepthLimit == IF limit = "depth1" THEN 1 ELSE MaxIter
FinishIteration ==
  /\ mode = "search" /\ phase = "top" /\ stack = << >>
  /\ \E tooLittle \in (IF Timed THEN {TRUE, FALSE} ELSE {FALSE}) :
       LET hasMove == Len(Moves[root]) > 0
           aborted == stop \/ ~hasMove \/ rootCut
           tl == tooLittle \/ timeup
           accept == IF DevZeroBudget THEN ~(aborted \/ tl)
                     ELSE IF DevPartialIteration THEN (~aborted \/ (stop /\ hasMove /\ ~rootCut))
                     ELSE ~aborted
           done == aborted \/ tl \/ (limit # "infinite" /\ iter >= DepthLimit)
       IN
       /\ \E mv \in (IF accept THEN LegalOf(board) ELSE {best}) :
            /\ best' = mv
            /\ whole' = IF accept THEN (whole /\ ~aborted) ELSE whole
            /\ pvOf' = IF accept THEN root ELSE pvOf          \* an accepted iteration replaces the stored principal variation
            /\ IF done
               THEN /\ mode' = IF quit THEN "exit" ELSE "idle"
                    /\ lastBest' = mv /\ lastRoot' = given
                    /\ lastPonderOf' = IF DevStalePonder \/ mv # "none" THEN (IF accept THEN root ELSE pvOf) ELSE -1
                    /\ answers' = answers + 1
                    /\ gui' = IF gui = "waiting" THEN "idle" ELSE gui
                    /\ UNCHANGED <<iter, stack, phase>>
               ELSE /\ iter' = IF iter < MaxIter THEN iter + 1 ELSE iter
                    /\ stack' = << [pos |-> board, idx |-> 1] >> /\ phase' = "enter"
                    /\ UNCHANGED <<mode, lastBest, lastRoot, answers, gui, lastPonderOf>>
       /\ timeup' = (timeup \/ (tooLittle /\ Timed))
  /\ UNCHANGED <<chan, sent, sentPos, board, root, limit, nodes, stop, quit, given, rep, rootCut>>

Next == GuiPositionGo \/ GuiGoAgain \/ GuiStop \/ GuiQuit
        \/ IdleRecv \/ EnterNode \/ Descend \/ ReturnFromChild \/ NodeDone \/ FinishIteration

SearchStep == EnterNode \/ Descend \/ ReturnFromChild \/ NodeDone \/ FinishIteration \/ IdleRecv
Spec == Init /\ [][Next]_vars /\ WF_vars(SearchStep) /\ WF_vars(GuiStop)

\* ------------------------------------------------------------------ properties
TypeOK == /\ mode \in {"idle", "search", "exit"} /\ phase \in {"enter", "loop", "ret", "top"}
          /\ board \in 0 .. 5

\* C09: whenever the search thread is not searching, its board is the position it was given
BoardRestored == mode # "search" => board = given
\* C07: at most one answer per go, and none is pending when the GUI is idle
OneAnswer == answers <= 1 /\ (gui = "idle" /\ sent > 0 => answers = 1)
\* C07: the announced move is legal in the position the GUI set, and is a move whenever one exists
AnswerLegal == (sent > 0 /\ answers = 1) =>
                 /\ (LegalOf(lastRoot) # {} => lastBest \in LegalOf(lastRoot))
                 /\ (LegalOf(lastRoot) = {} => lastBest = "none")
\* C16: an announced ponder move comes from the principal variation of the search that is being answered
PonderFresh == (sent > 0 /\ answers = 1) => lastPonderOf \in {-1, lastRoot}
\* C09: what is announced was produced by iterations that ran to their end
WholeIterations == whole
\* liveness: every go is eventually answered (infinite needs a stop, which WF on GuiStop provides)
Answered == (gui = "waiting") ~> (gui # "waiting")

\* refinement: the code-shaped model implements the observable contract (the one EngineTrace holds real sessions to)
Obs == INSTANCE EngineObs WITH LegalOf <- LegalOf, None <- "none",
                               gpos <- sentPos, waiting <- (sent > 0 /\ answers = 0), last <- lastBest
ImplementsObs == Obs!Spec
=============================================================================

SPECIFICATION Spec
CONSTANTS
  MaxIter = 3
  PollEvery = 4
  MaxGo = 3
  DevNoUnmake = FALSE
  DevZeroBudget = FALSE
INVARIANT TypeOK
INVARIANT BoardRestored
INVARIANT OneAnswer
INVARIANT AnswerLegal
PROPERTY Answered
PROPERTY ImplementsObs
CHECK_DEADLOCK FALSE

INIT Init
NEXT Next

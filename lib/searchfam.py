"""Search-result properties C08 (exact minimax / mates), C10 (draw rules), C11 (colour symmetry, terminal scores):
every fixed-depth search, evaluation probe and repetition-counter sweep is one TLC step of SearchTrace.tla, which
evaluates the reference game-tree value (SearchRef.tla) over TLC's own move generator with the engine's static
evaluation supplied as an opaque table (hook H2)."""
import json
import os
import random
import re
import time

from common import (SPEC, NCPU, Outcome, ToolError, log, pmap, read_ndjson, run_harness, run_tlc, seed, shard, validate_trace,
                    workdir, write_evidence)
from boardfam import casegen, corpus, posfilter, board_to_fen
from findings import matcher_for

SPARSE = [
    "8/8/8/4k3/8/8/3Q4/4K3 w - - 0 1", "8/8/8/4k3/8/8/3R4/4K3 w - - 0 1", "8/8/8/4k3/8/8/2BN4/4K3 w - - 0 1", "8/8/8/4k3/8/8/4P3/4K3 w - - 0 1",
    "8/5k2/8/8/8/8/1r4R1/4K3 w - - 12 40", "8/P6k/8/8/8/8/p6K/8 w - - 0 1", "4k3/8/8/8/1b6/8/3N4/4K3 w - - 0 1", "6k1/8/8/8/7b/8/5Q2/4K3 w - - 0 1",
    "7k/5Q2/6K1/8/8/8/8/8 w - - 0 1", "6k1/5ppp/8/8/8/8/8/R3K3 w - - 0 1", "kbK5/pp6/1P6/8/8/8/8/R7 w - - 0 1", "8/8/8/8/8/5k2/6q1/7K w - - 0 1",
    "5k2/5P2/5K2/8/8/8/8/8 w - - 0 1", "8/8/8/3k4/4P3/8/8/4K3 b - - 0 1", "4k3/8/8/pP6/8/8/8/4K3 w - a6 0 1", "3r1r2/4P3/8/8/8/8/k7/4K3 w - - 0 1",
    "8/8/8/8/8/1k6/2q5/K7 w - - 0 1", "6k1/6P1/5K2/8/8/8/8/8 w - - 0 1", "1k6/1P6/2K5/8/8/8/8/7R w - - 0 1", "r3k3/8/8/8/8/8/8/4K2R w K - 0 1",
    "4k3/8/4K3/8/8/8/8/R7 w - - 0 1", "7k/8/5KR1/8/8/8/8/8 w - - 0 1", "8/8/8/8/8/2k5/1r6/K7 w - - 0 1", "k7/8/1K6/8/8/8/8/6Q1 w - - 0 1",
]
DENSE = [
    "r1bqk1nr/pppp1ppp/2n5/2b1p3/2B1P3/5N2/PPPP1PPP/RNBQK2R w KQkq - 4 4", "rnbqkbnr/pppppppp/8/8/8/8/PPPPPPPP/RNBQKBNR w KQkq - 0 1",
    "r3k2r/p1ppqpb1/bn2pnp1/3PN3/1p2P3/2N2Q1p/PPPBBPPP/R3K2R w KQkq - 0 1", "r2q1rk1/ppp2ppp/2npbn2/2b1p3/2B1P3/2NP1N2/PPP1QPPP/R1B2RK1 w - - 6 8",
    "rnbq1k1r/pp1Pbppp/2p5/8/2B5/8/PPP1NnPP/RNBQK2R w KQ - 1 8", "2kr3r/ppp2ppp/2n1bn2/2b1p1B1/4P3/2NP1N2/PPP2PPP/R3KB1R w KQ - 3 9",
]


def flip_fen(fen):
    """mechanical colour flip of a FEN (TLC verifies it: the harness' / driver's mirror is not trusted)"""
    f = fen.split(" ")
    rows = f[0].split("/")[::-1]
    rows = ["".join(c.lower() if c.isupper() else c.upper() for c in r) for r in rows]
    cr = "".join(sorted(("".join(c.lower() if c.isupper() else c.upper() for c in f[2])), key=lambda c: "KQkq".index(c))) if f[2] != "-" else "-"
    ep = f[3] if f[3] == "-" else f[3][0] + str(9 - int(f[3][1]))
    return " ".join(["/".join(rows), "b" if f[1] == "w" else "w", cr, ep] + f[4:])


def walk_fens(wd, rng, roots, n, plies):
    cases = [{"id": i + 1, "fen": rng.choice(roots), "ops": [{"op": "walk", "plies": plies, "seed": rng.randrange(1 << 30)}]} for i in range(n)]
    tr = run_harness("board", cases, wd, "walk", "C08")
    return [e["snap"]["fen"] for e in read_ndjson(tr) if e["ev"] == "make"]


def run_search_check(prop, tier, cases, wd, t0, rule, level, assumptions, model=None):
    outcome = Outcome(prop)
    mfut = None
    if model:
        # the design-level model runs beside the trace validation
        import concurrent.futures as _cf
        mex = _cf.ThreadPoolExecutor(max_workers=1)
        mfut = mex.submit(model, wd, tier == "thorough")
    # only well-formed positions may reach the implementation (TLC decides): an ill-formed one (side not to move in check,
    # missing king) can abort the process through an unchecked table index
    fens = list(dict.fromkeys(c["fen"] for c in cases if "fen" in c))
    cls = posfilter(wd, fens, "wfcheck") if fens else {}
    illf = {f for f in fens if not cls[f]["wf"]}
    if illf:
        log("%s: %d ill-formed positions dropped (TLC WellFormed): %s" % (prop, len(illf), sorted(illf)[:5]))
        dropped = {c["id"] for c in cases if c.get("fen") in illf}
        cases = [c for c in cases if c["id"] not in dropped and c.get("flipof", 0) not in dropped]
    log("%s: %d cases" % (prop, len(cases)))
    # pairs (flipof) must stay adjacent and in order: shard by groups
    groups = []
    for c in cases:
        if c.get("flipof") or c.get("pair") in (1, 2):
            groups[-1].append(c)
        else:
            groups.append([c])
    gsh = shard([{"id": i, "g": g, "w": sum(x.get("w", 1) for x in g)} for i, g in enumerate(groups)], NCPU * 2, lambda x: x["w"])

    def one(i):
        cs = [c for grp in sorted(gsh[i], key=lambda x: x["id"]) for c in grp["g"]]
        tr = run_harness("search", [{k: v for k, v in c.items() if k not in ("key", "why", "w")} for c in cs], wd, "s%d" % i, prop, timeout=3000)
        res, info = validate_trace("SearchTrace.tla", "SearchTrace.cfg", tr, wd, "s%d" % i, env={"PROP": prop}, timeout=7000)
        return tr, res, info

    results = pmap(one, list(range(len(gsh))))
    by_id = {c["id"]: c for c in cases}
    states = trans = evals = skipped = 0
    nt = set()
    bad = set()
    samples = []
    for tr, res, info in results:
        states += info["distinct"]
        trans += info["generated"]
        evs = read_ndjson(tr)
        for e in evs:
            if e["ev"] == "skipped":
                skipped += 1
            elif e["ev"] == "reps":
                evals += len(e["rows"])
            else:
                evals += 1
        for i in res["ntr"]:
            e = evs[i - 1]
            if e["ev"] == "reps":
                for r in e["rows"]:
                    if r[2] >= 2:
                        nt.add(("rep", e["len"], e["base"], r[0], r[1]))
            else:
                nt.add(json.dumps(by_id.get(e["c"], {}).get("key", e["c"])))
        for note in res["bad"]:
            bad.add(note["c"])
            outcome.add({k: v for k, v in by_id.get(note["c"], {}).items() if k != "key"}, note, matcher_for(prop))
        if len(samples) < 3:
            for e in evs:
                if e["ev"] in ("godepth", "eval"):
                    samples.append({k: (v if k != "evals" else "%d positions" % len(v)) for k, v in e.items()})
                    break
    cov = {"evaluations": evals, "distinct_nontrivial": len(nt), "rule": rule, "samples": samples,
           "states": states, "transitions": trans, "traces_validated_against_impl": len(cases) - len(bad) - skipped,
           "skipped_reference_tree_too_large": skipped, "exhaustive": False,
           "checker_cmd": "java ... tlc2.TLC -workers 1 -config spec/SearchTrace.cfg spec/SearchTrace.tla per trace shard (PROP, TRACE, OUT in env)"}
    if mfut:
        m = mfut.result()
        cov["design_model"] = {"module": "ABTT.tla (rules in TTRule.tla)", "games_enumerated": m["states"], "runs": m["runs"],
                               "invariants": ["Exact", "TableSound"]}
        cov["states"] += m["states"]
        cov["transitions"] += m["transitions"]
    rc = outcome.finish()
    write_evidence(prop, tier, level, cov, time.time() - t0, len(outcome.violations), assumptions)
    return rc


ASSUME = ["the static evaluation is opaque: its value for every position of the reference tree comes from hook H2 (ongoing evaluation with neutral clocks); "
          "sign, fifty-move rule, mate/stalemate, capture resolution, minimax and mate distance are the specification's",
          "positions whose reference tree (depth-d legal tree plus capture closure) exceeds the table cap are skipped and counted, not judged",
          "fresh engine per search unless the case asks for warm-up searches on the same engine"]


def go_case(cases, fen, d, ref, mode="exact", moves=(), sm=(), warm=(), flipof=0, cap=60000, w=10, why="", cycle=(), pre=(), ttcap=0):
    c = {"id": len(cases) + 1, "family": "search", "k": "godepth", "fen": fen, "moves": list(moves), "d": d, "searchmoves": list(sm), "ref": ref, "mode": mode,
         "cycle": list(cycle), "noeval": mode in ("deeprep", "free"), "pre": list(pre), "ttcap": ttcap,
         "warm": list(warm), "flipof": flipof, "cap": cap, "w": w, "why": why, "key": [fen, list(moves), d, list(sm), bool(warm)]}
    cases.append(c)
    return c


def mate_candidates(rng, n):
    """positions in which a forced mate is likely: defending king at the edge, attacking king close, heavy attacking material, a few
    further pieces; the attacker to move, either colour.  (Candidates only: the harness' search supplies a certificate, TLC verifies it.)"""
    out = []
    sets = ["Q", "R", "QR", "RR", "QB", "QN", "RB", "RN", "BBN", "QQ", "RBN", "BN", "QP", "RP", "RRP"]
    edge = [q for q in range(64) if q % 8 in (0, 7) or q // 8 in (0, 7)]
    while len(out) < n:
        board = {}
        dk = rng.choice(edge) if rng.random() < 0.85 else rng.randrange(64)
        board[dk] = "k"
        near = [q for q in range(64) if 2 <= max(abs(q % 8 - dk % 8), abs(q // 8 - dk // 8)) <= 3]
        board[rng.choice(near)] = "K"
        for pc in rng.choice(sets):
            q = rng.randrange(64)
            if q in board or (pc == "P" and (q < 8 or q >= 56)):
                continue
            board[q] = pc
        for _ in range(rng.choice([0, 0, 1, 1, 2, 3])):
            q = rng.randrange(64)
            pc = rng.choice("pppnbrq")
            if q in board or (pc == "p" and (q < 8 or q >= 56)):
                continue
            board[q] = pc
        f = board_to_fen(board, "w")
        out.append(f if rng.random() < 0.5 else flip_fen(f))
    return out


def stalemate_prone(rng, n):
    """a bare (or nearly bare) king at the edge with a hostile queen / rook / pawn close by: lines that end in stalemate exactly at the horizon"""
    out = []
    edge = [q for q in range(64) if q % 8 in (0, 7) or q // 8 in (0, 7)]
    corner = [0, 7, 56, 63]
    while len(out) < n:
        board = {}
        dk = rng.choice(corner) if rng.random() < 0.6 else rng.choice(edge)
        board[dk] = "k"
        near = lambda lo, hi: [q for q in range(64) if q not in board and lo <= max(abs(q % 8 - dk % 8), abs(q // 8 - dk // 8)) <= hi]
        board[rng.choice(near(2, 3))] = "K"
        board[rng.choice(near(1, 3))] = rng.choice("QQQR")
        if rng.random() < 0.4:
            q = rng.choice(near(1, 4))
            if 8 <= q < 56:
                board[q] = rng.choice("Pp")
        if rng.random() < 0.4:
            # a hostile pawn or piece right next to the king (it may be protected: a capture that exists only as a pseudo-legal move)
            adj = near(1, 1)
            if adj:
                q = rng.choice(adj)
                board[q] = "P" if (8 <= q < 56 and rng.random() < 0.6) else rng.choice("NBR")
        if rng.random() < 0.3:
            board[rng.choice(near(1, 5))] = rng.choice("rbnq")
        f = board_to_fen(board, rng.choice("wb"))
        out.append(f if rng.random() < 0.5 else flip_fen(f))
    return out


def abtt_model_check(wd, T):
    """ABTT.tla: TLC enumerates every small game (levelled DAG with transpositions, any move order, terminal nodes, fail-hard and fail-soft
    horizon values) and checks that the windowed search with the table returns the minimax value and leaves only true bounds in the table;
    each deviation must make TLC find a game on which that fails.  One TLC process per order of the root's children."""
    base = open(os.path.join(SPEC, "ABTT.cfg")).read()

    def cfg(w, vmax, it, dev, root):
        c = base.replace("W1 = 2", "W1 = %d" % w[0]).replace("W2 = 2", "W2 = %d" % w[1]).replace("W3 = 2", "W3 = %d" % w[2])
        c = c.replace("VMax = 2", "VMax = %d" % vmax).replace("Iter = FALSE", "Iter = %s" % ("TRUE" if it else "FALSE"))
        return c.replace('Dev = "none"', 'Dev = "%s"' % dev).replace("RootKids = 0", "RootKids = " + root)

    roots2 = ["1", "2", "12", "21"]
    single = ((2, 3, 2), 1) if T else ((2, 2, 2), 1)
    runs = []
    for r in roots2:
        runs.append(("single%s" % r, cfg(single[0], single[1], False, "none", r), False))
        runs.append(("iter%s" % r, cfg((2, 2, 1), 1, True, "none", r), False))
    if T:
        for r in roots2:
            runs.append(("wide%s" % r, cfg((2, 2, 2), 2, False, "none", r), False))
    for dev in ("UpperAgainstRaisedAlpha", "BoundsSwapped", "AlwaysExact"):
        runs.append((dev, cfg((2, 2, 2), 1, False, dev, "0"), True))
    runs.append(("IgnoreDraft", cfg((2, 2, 1), 1, True, "IgnoreDraft", "0"), True))

    def one(r):
        name, c, expect = r
        tag = re.sub(r"[^A-Za-z0-9]", "_", name)
        p = os.path.join(wd, "ABTT_%s.cfg" % tag)
        open(p, "w").write(c)
        swd = os.path.join(wd, "abtt_" + tag)
        os.makedirs(swd, exist_ok=True)
        info = run_tlc(os.path.join(SPEC, "ABTT.tla"), p, swd, workers=1, timeout=20000 if T else 1500)
        return name, expect, "Error:" in info["out"], info

    out = {"states": 0, "transitions": 0, "runs": []}
    for name, expect, violated, info in pmap(one, runs, 6 if not T else 12):
        if expect and not violated:
            raise ToolError("ABTT with Dev=%s found no violation: the model is too small to tell the deviation from the design" % name)
        if not expect:
            if violated or info["rc"] != 0:
                raise ToolError("ABTT: the design violates exactness in the model:\n" + info["out"][-3000:])
            out["states"] += info["distinct"]
            out["transitions"] += info["generated"]
        out["runs"].append({"config": name, "violation_found": violated, "distinct": info["distinct"]})
    return out


def check_c08(tier, replay=None):
    t0 = time.time()
    T = tier == "thorough"
    wd = workdir("C08")
    rng = random.Random("C08-%d" % seed())
    cases = []
    if replay:
        c = json.load(open(replay))
        cases.append(dict(c, id=1))
    else:
        extra = walk_fens(wd, rng, SPARSE[:6], 40 if T else 4, 40)
        extra = [f for f in dict.fromkeys(extra)]
        sparse = SPARSE + rng.sample(extra, min(len(extra), 200 if T else 8))
        warm = [{"fen": DENSE[1], "d": 2}, {"fen": SPARSE[0], "d": 3}]
        for f in (sparse if T else rng.sample(sparse, 14)):
            parts = f.split(" ")
            parts[4] = str(rng.choice([0, 3, 20]))
            f = " ".join(parts)
            for d in ((1, 2, 3) if T else rng.sample([1, 2, 3], 2)):
                w = {1: 1, 2: 6, 3: 40}[d]
                a = go_case(cases, f, d, "plain", warm=warm if rng.random() < 0.4 else (), w=w, why="sparse position, plain reference", ttcap=2000)
                go_case(cases, flip_fen(f), d, "plain", flipof=a["id"], w=w, why="colour-flipped twin")
        for f in (DENSE if T else rng.sample(DENSE, 3)):
            a = go_case(cases, f, 1, "ab", warm=warm if rng.random() < 0.4 else (), w=40, why="dense position, alpha-beta reference")
            if T:
                go_case(cases, flip_fen(f), 1, "ab", flipof=a["id"], w=40, why="colour-flipped twin")
                go_case(cases, f, 2, "ab", cap=400000, w=300, why="dense position depth 2, alpha-beta reference")
        # deeper searches, where transpositions do reach the table: every table decision the search logs (hook H6) against TTRule
        for f in rng.sample(sparse, min(len(sparse), 80 if T else 8)) + (DENSE if T else rng.sample(DENSE, 2)):
            go_case(cases, f, rng.choice([4, 5]) if f not in DENSE else 4, "ab", mode="free", warm=warm if rng.random() < 0.3 else (), w=30,
                    why="deeper search: table decisions only", ttcap=2000)
        # stalemates on the horizon: move-less and not in check must be valued 0 wherever it occurs in the tree
        for f in stalemate_prone(rng, 4000 if T else 500):
            go_case(cases, f, rng.choice([1, 2]), "plain", w=3, why="bare king at the edge, hostile queen close by: stalemates at the horizon")
        # carry-over: another game went through these very positions on the same engine before (position commands only); this game is
        # its bare FEN - no repetition history - so the exact value must be that of a fresh engine ("irrespective of what was searched before")
        for _ in range(120 if T else 6):
            white_strong = rng.random() < 0.5
            board = {6: "K", 62: "k", 1: "N", 57: "n", 15: "P", 55: "p"}
            board[3 if white_strong else 59] = "Q" if white_strong else "q"
            stm = rng.choice("wb")
            wm = rng.choice([("b1", "c3")] + ([("d1", "d2")] if white_strong else []))
            bm = rng.choice([("b8", "c6")] + ([("d8", "d7")] if not white_strong else []))
            first, second = (wm, bm) if stm == "w" else (bm, wm)
            cyc = [first[0] + first[1], second[0] + second[1], first[1] + first[0], second[1] + second[0]]
            fmn0 = rng.choice([1, 7, 60])
            f = board_to_fen(board, stm).split(" ")
            k = rng.choice([2, 2, 3])
            g0 = " ".join(f[:4] + ["0", str(fmn0)])
            g2 = " ".join(f[:4] + [str(4 * k), str(fmn0 + 2 * k)])
            go_case(cases, g2, rng.choice([2, 3]) if T else 2, "plain", pre=[{"fen": g0, "moves": cyc * k}], w=40,
                    why="bare FEN after an identical game was set up on the same engine: exact value as on a fresh engine", ttcap=500)
        # forced mates: depth 2N-1 must report mate N
        for f, d in [("7k/5Q2/6K1/8/8/8/8/8 w - - 0 1", 1), ("6k1/5ppp/8/8/8/8/8/R3K3 w - - 0 1", 1), ("kbK5/pp6/1P6/8/8/8/8/R7 w - - 0 1", 3),
                     ("8/8/8/8/8/5k2/6q1/7K w - - 0 1", 2), ("7k/8/5KR1/8/8/8/8/8 w - - 0 1", 3), ("k7/8/1K6/8/8/8/8/6Q1 w - - 0 1", 1),
                     ("4k3/8/4K3/8/8/8/8/R7 w - - 0 1", 1)] + ([("r5rk/5p1p/5R2/4B3/8/8/7P/7K w - - 0 1", 5)] if T else []):
            a = go_case(cases, f, d, "plain" if d <= 3 else "ab", w=50 if d >= 3 else 5, why="forced mate corpus")
            go_case(cases, flip_fen(f), d, "plain" if d <= 3 else "ab", flipof=a["id"], w=50 if d >= 3 else 5, why="forced mate corpus, colour-flipped")
        # forced mates in 1..3 at large: candidates, certificate from the harness' search, TLC verifies the certificate reply by reply;
        # the engine must then announce a mate no longer than that and play a move that keeps it
        for i, f in enumerate(mate_candidates(rng, 40000 if T else 1200)):
            cases.append({"id": len(cases) + 1, "family": "search", "k": "matego", "fen": f, "moves": [], "searchmoves": [], "ref": "ab", "mode": "mate",
                          "cycle": [], "pre": [], "warm": warm if i % 7 == 0 else [], "flipof": 0, "cap": 60000, "ttcap": 0, "w": 4,
                          "why": "candidate forced mate (certificate verified by TLC)", "key": [f, [], "mate", [], i % 7 == 0]})
    rule = ("positions: sparse corpus (endings, pins, promotions, e.p., mates in 1-3) plus positions from random legal games, each with its colour-flipped twin, "
            "depths 1-3 with the plain (unpruned) reference; dense middlegames at depth 1 (thorough: 2) with the alpha-beta reference (SelfTest checks both forms agree); "
            "some searches on an engine that has searched other positions before. TLC computes the minimax value over its own legal move generator with capture resolution and "
            "compares score text, best move (must attain the value), PV legality and, for 'mate N', a 2N-1 ply line ending in checkmate. "
            "Forced mates at large: random positions with mating material; the harness' own search proposes a certificate (attacker move, and for every reply the next one), "
            "TLC verifies it against its move generator and only then demands `mate k`, k <= N, at depth 2N-1 and a best move after which the mate is still forced. "
            "Table decisions (hook H6) of every search with a log are held against TTRule. "
            "distinct_nontrivial = distinct (position, depth, searchmoves, warm) searches with depth >= 2 or a mate score (forced-mate candidates count only when the certificate verified)")
    return run_search_check("C08", tier, cases, wd, t0, rule, "exploration", ASSUME, model=None if replay else abtt_model_check)


def shuffle_histories(rng, n):
    """material-imbalanced positions in which each side has pieces that can shuttle between two squares without interfering;
    the history interleaves shuttles (so positions repeat at various distances) and sometimes an irreversible pawn push"""
    out = []
    for _ in range(n):
        white_strong = rng.random() < 0.5
        # white: Kg1, Nb1 (b1<->c3), pawn h2, maybe Qd1 (d1<->d2) ; black: Kg8, Nb8 (b8<->c6), pawn h7, maybe qd8 (d8<->d7):
        # no shuttle square lies on a line through a king, so every shuttle move is legal whatever the others did
        board = {6: "K", 62: "k", 1: "N", 57: "n", 15: "P", 55: "p"}
        if white_strong:
            board[3] = "Q"
        else:
            board[59] = "q"
        shut_w = [("b1", "c3")] + ([("d1", "d2")] if white_strong else [])
        shut_b = [("b8", "c6")] + ([("d8", "d7")] if not white_strong else [])
        stm = rng.choice("wb")
        hmc0 = rng.choice([0, 0, 3, 10, 40])
        fmn0 = rng.choice([1, 1, 7, 60, 200, 1200, 2400, 2499, 2500, 2600, 30000])
        fen = board_to_fen(board, stm).split(" ")
        fen[4], fen[5] = str(hmc0), str(fmn0)
        fen = " ".join(fen)
        state = {"w": [0] * len(shut_w), "b": [0] * len(shut_b)}
        moves = []
        side = stm
        pawn_done = {"w": False, "b": False}
        for ply in range(rng.choice([4, 6, 8, 9, 10, 12, 16, 24, 40])):
            sh = shut_w if side == "w" else shut_b
            if rng.random() < 0.06 and not pawn_done[side]:
                moves.append("h2h3" if side == "w" else "h7h6")
                pawn_done[side] = True
            else:
                i = rng.randrange(len(sh)) if rng.random() < 0.3 else 0
                a, b = sh[i]
                moves.append(a + b if state[side][i] == 0 else b + a)
                state[side][i] ^= 1
            side = "b" if side == "w" else "w"
        sh = shut_w if side == "w" else shut_b
        i = rng.randrange(len(sh)) if rng.random() < 0.3 else 0
        a, b = sh[i]
        nxt = a + b if state[side][i] == 0 else b + a
        out.append((fen, moves, nxt))
    return out


def check_c10(tier, replay=None):
    t0 = time.time()
    T = tier == "thorough"
    wd = workdir("C10")
    rng = random.Random("C10-%d" % seed())
    cases = []
    if replay:
        c = json.load(open(replay))
        cases.append(dict(c, id=1))
    else:
        # (1) the repetition counter against its contract, every equality pattern
        for ln in range(0, 14 if T else 10):
            for base in ([0, 1, 3, 100, 4980 - ln] if T else [0, 3, 100]):
                cases.append({"id": len(cases) + 1, "family": "search", "k": "reps", "len": ln, "hmax": 15, "base": base, "w": 1 + (1 << ln) // 20,
                              "why": "count_repetitions on every pattern", "key": ["reps", ln, base]})
        # (2) end to end: histories with repetitions at various distances
        for fen, moves, nxt in shuffle_histories(rng, 5000 if T else 160):
            go_case(cases, fen, 1, "plain", mode="rep", moves=moves, sm=[nxt], w=3, why="history with shuttling pieces; search the move that may complete a threefold repetition")
        # (2a) another game was set up on the same engine before: its positions must not count as occurrences of this game
        for _ in range(1000 if T else 40):
            white_strong = rng.random() < 0.5
            board = {6: "K", 62: "k", 1: "N", 57: "n", 15: "P", 55: "p"}
            board[3 if white_strong else 59] = "Q" if white_strong else "q"
            stm = rng.choice("wb")
            wm = rng.choice([("b1", "c3")] + ([("d1", "d2")] if white_strong else []))
            bm = rng.choice([("b8", "c6")] + ([("d8", "d7")] if not white_strong else []))
            first, second = (wm, bm) if stm == "w" else (bm, wm)
            cyc = [first[0] + first[1], second[0] + second[1], first[1] + first[0], second[1] + second[0]]
            fmn0 = rng.choice([1, 7, 60, 1200])
            f = board_to_fen(board, stm).split(" ")
            g0 = " ".join(f[:4] + ["0", str(fmn0)])
            k = rng.choice([1, 2, 2, 3])                      # the earlier game went round the cycle k times
            g2 = " ".join(f[:4] + [str(4 * k), str(fmn0 + 2 * k)])   # this game: same placement, clocks say 4k plies later
            go_case(cases, g2, 1, "plain", mode="rep", moves=[], sm=[cyc[0]], pre=[{"fen": g0, "moves": cyc * k}], w=3,
                    why="a previous position command on the same engine left an identical game behind; this game's history is only its own FEN")
        # (2b) repetitions completed deep inside the search line: perpetual-check positions, the cycle already played k times;
        #      go depth 4 restricted to the first check must value the line that completes the third occurrence as a draw
        perpetuals = [("6k1/6p1/8/7Q/8/7K/1rr5/1q6 w - - 0 1", ["h5e8", "g8h7", "e8h5", "h7g8"]),
                      ("1k6/1p6/8/Q7/8/K7/5rr1/6q1 w - - 0 1", ["a5d8", "b8a7", "d8a5", "a7b8"]),
                      ("6k1/6p1/8/7Q/8/7K/1r6/1q6 w - - 3 30", ["h5e8", "g8h7", "e8h5", "h7g8"])]
        flipmv = lambda m: m[0] + str(9 - int(m[1])) + m[2] + str(9 - int(m[3]))
        perpetuals += [(flip_fen(f), [flipmv(m) for m in cyc]) for f, cyc in perpetuals[:2]]
        for f, cyc in (perpetuals if T else perpetuals[:2] + perpetuals[3:4]):
            for d in ((4, 5, 6) if T else (4,)):
                go_case(cases, f, d, "ab", mode="deeprep", moves=cyc, sm=[cyc[0]] if d <= 4 or T else [], cycle=cyc, cap=1, w=5,
                        why="perpetual check already played once: the searched line completes the third occurrence at ply 4")
                go_case(cases, f, d, "ab", mode="deeprep", moves=cyc, cycle=cyc, cap=1, w=5,
                        why="perpetual check already played once, all root moves")
            go_case(cases, f, 3, "plain", mode="rep", moves=cyc * 2, sm=[cyc[0]], w=5,
                    why="perpetual check already played twice: the first check completes the third occurrence at ply 1")
        # (3) fifty-move rule: every half-move clock 0..150
        roots = ["8/8/8/4k3/8/8/3Q4/4K3 w - - 0 1", "4k3/3q4/8/8/4K3/8/8/8 b - - 0 1", "8/5k2/8/8/8/7P/1r4R1/4K3 w - - 0 1", "4k3/1R4r1/7p/8/8/8/5K2/8 b - - 0 1"]
        gen, _ = casegen(wd, roots, "c10")
        for f in roots:
            g = gen[f]
            quiet = [m for m, s in g["sans"] if "x" not in s and "=" not in s and "#" not in s and s[0] in "KQR"]
            other = [m for m, s in g["sans"] if "x" in s or s[0] in "abcdefgh"]
            for h in range(0, 151, 1 if T else 3) if not T else range(0, 151):
                parts = f.split(" ")
                parts[4] = str(h)
                parts[5] = str(max(int(parts[5]), h // 2 + 1))
                ff = " ".join(parts)
                go_case(cases, ff, 1, "plain", mode="fifty", sm=[rng.choice(quiet)], w=1, why="fifty-move sweep, quiet move")
                if other and rng.random() < 0.3:
                    go_case(cases, ff, 1, "plain", mode="fifty", sm=[rng.choice(other)], w=1, why="fifty-move sweep, capture or pawn move")
            for h in (98, 99, 100, 101):
                parts = f.split(" ")
                parts[4] = str(h)
                parts[5] = "60"
                go_case(cases, " ".join(parts), 1, "plain", mode="fifty", w=3, why="fifty-move threshold, all root moves")
        # (3b) castling is NOT a clock-resetting move: castling as the searched root move at every clock, castling in the supplied
        #      history in front of a quiet move, and all root moves (castling among them) around the threshold
        croots = [("4k3/8/8/8/8/8/8/R3K2R w KQ - 0 1", [("e1g1", "e8d7", "g1h1"), ("e1c1", "e8f7", "c1b1")]),
                  ("r3k2r/8/8/8/8/8/8/4K3 b kq - 0 1", [("e8g8", "e1d2", "g8h8"), ("e8c8", "e1f2", "c8b8")]),
                  ("4k3/7p/8/8/8/8/P7/R3K2R w KQ - 0 1", [("e1g1", "e8d7", "g1h1"), ("e1c1", "e8f7", "c1b1")])]
        for f, lines in croots:
            for h in (range(0, 151) if T else list(range(0, 90, 9)) + list(range(90, 112))):
                parts = f.split(" ")
                parts[4] = str(h)
                parts[5] = str(max(int(parts[5]), h // 2 + 1))
                ff = " ".join(parts)
                cas, reply, quiet_after = lines[h % 2]
                go_case(cases, ff, 1, "plain", mode="fifty", sm=[cas], w=1, why="fifty-move sweep, castling as the root move (the clock goes on)")
                go_case(cases, ff, 1, "plain", mode="fifty", moves=[cas, reply], sm=[quiet_after], w=1,
                        why="fifty-move sweep, castling in the supplied history (the clock goes on)")
            for h in (97, 98, 99, 100):
                parts = f.split(" ")
                parts[4] = str(h)
                parts[5] = "60"
                go_case(cases, " ".join(parts), 1, "plain", mode="fifty", w=3, why="fifty-move threshold, all root moves incl. castling")
                go_case(cases, " ".join(parts), 3, "plain", mode="fifty", w=5, why="fifty-move threshold reached inside the search, castling in the line")
    rule = ("(1) count_repetitions (hook H3) on every equality pattern of histories of length 0..9 (thorough 0..12) x every half-move clock 0..15 x index offsets, "
            "against Draws!CountRepetitionsSpec; (2) go depth 1 searchmoves m after position ... moves <history> for generated histories in which pieces shuttle "
            "(repetitions at distances 4..40, irreversible pawn pushes injected, start FENs with clocks/move numbers up to 2400): TLC decides from the history as "
            "moves whether the position after m has then occurred three times inside the reversible window and requires a draw score (+- contempt) iff so, else "
            "the minimax value; (3) K+Q v K and R+P v R positions with every half-move clock 0..150: draw score iff 100 plies are reached. "
            "distinct_nontrivial = distinct cases in which the window contains an earlier equal position (count >= 2), or the clock is within 10 of the threshold")
    return run_search_check("C10", tier, cases, wd, t0, rule, "exploration", ASSUME + ["contempt value read through hook H2; its sign is not constrained"])


def random_material_fens(rng, n):
    out = []
    for _ in range(n):
        board = {}
        sq = rng.sample(range(64), 2 + rng.randrange(0, 14))
        board[sq[0]], board[sq[1]] = "K", "k"
        for q in sq[2:]:
            p = rng.choice("QRBNPqrbnp" + "Pp" * 3)
            if p in "Pp" and (q < 8 or q >= 56):
                continue
            board[q] = p
        out.append(board_to_fen(board, rng.choice("wb")))
    return out


def check_c11(tier, replay=None):
    t0 = time.time()
    T = tier == "thorough"
    wd = workdir("C11")
    rng = random.Random("C11-%d" % seed())
    cases = []

    def ev(fen, pair, why):
        cases.append({"id": len(cases) + 1, "family": "search", "k": "eval", "fen": fen, "pair": pair, "w": 1, "why": why, "key": [fen, pair]})

    if replay:
        c = json.load(open(replay))
        cases.append(dict(c, id=1, pair=0, flipof=0))
    else:
        roots = corpus(wd)
        fens = [r["fen"] for r in roots if "flipped" not in r["tags"]]
        fens += walk_fens(wd, rng, fens, 30 if T else 6, 120)
        cand = random_material_fens(rng, 60000 if T else 4000)
        cls = posfilter(wd, cand, "c11")
        synth = [c for c in cand if cls[c]["wf"]]
        fens = list(dict.fromkeys(fens + synth))
        for f in (fens if T else rng.sample(fens, min(len(fens), 1800))):
            ev(f, 0, "static evaluation")
            ev(flip_fen(f), 1, "static evaluation of the colour-flipped twin")
        # terminal positions: every mate / stalemate of the corpus and of the synthetic set, several full-move numbers
        term = [r["fen"] for r in roots if r["n"] == 0] + [c for c in synth if cls[c]["nlegal"] == 0]
        for f in term[: (400 if T else 60)]:
            parts = f.split(" ")
            first = True
            for fm in (1, 37, 1000, 2400):
                parts[5] = str(fm)
                ev(" ".join(parts), 0 if first else 2, "terminal evaluation, rising full-move number")
                first = False
            ev(flip_fen(" ".join(parts)), 1, "terminal evaluation of the colour-flipped twin")
            # mate and stalemate end the game whatever the half-move clock says (also at and beyond 100)
            for h in (rng.sample([1, 50, 99, 100, 101, 150, 4000], 3) if not T else [1, 50, 99, 100, 101, 150, 4000]):
                parts[4] = str(h)
                ev(" ".join(parts), 0, "terminal evaluation at half-move clock %d" % h)
                ev(flip_fen(" ".join(parts)), 1, "terminal evaluation of the colour-flipped twin")
        # search symmetry and mate preference through the engine
        for f in rng.sample(SPARSE, 12 if T else 5):
            for d in ((1, 2, 3) if T else (1, 2)):
                a = go_case(cases, f, d, "plain", w={1: 1, 2: 6, 3: 40}[d], why="search score on a position ...")
                go_case(cases, flip_fen(f), d, "plain", flipof=a["id"], w={1: 1, 2: 6, 3: 40}[d], why="... and on its colour-flipped twin")
        # symmetry of the search at large: no reference value needed, the twin must simply report the same score.  Positions with few
        # pieces and pawns close to promotion for either colour (the capture/promotion resolution at the horizon differs per colour in the code)
        light = [c for c in synth if cls[c]["nlegal"] > 0 and sum(ch.isalpha() for ch in c.split(" ")[0]) <= 9]
        near = [c for c in light if any("P" in r for r in c.split("/")[1:2]) or "p" in c.split(" ")[0].split("/")[6]]
        pool = rng.sample(near, min(len(near), 400 if T else 60)) + rng.sample(light, min(len(light), 400 if T else 60))
        for f in pool:
            d = rng.choice([1, 2, 3])
            a = go_case(cases, f, d, "ab", mode="free", w=3, why="search score on a random light position ...")
            go_case(cases, flip_fen(f), d, "ab", mode="free", flipof=a["id"], w=3, why="... and on its colour-flipped twin")
        # stalemate scores as a draw wherever it occurs in the tree, also exactly at the horizon
        for f in stalemate_prone(rng, 2500 if T else 600):
            go_case(cases, f, rng.choice([1, 2]), "plain", w=3, why="bare king at the edge, hostile queen close by: stalemates at the horizon")
        # mate distances for both sides and both colours: candidate forced mates (certificate verified by TLC): the mating side must
        # announce mate k <= N, the side being mated (position after the certified move) mate -k with k <= N - 1
        for i, f in enumerate(mate_candidates(rng, 8000 if T else 400)):
            cases.append({"id": len(cases) + 1, "family": "search", "k": "matego", "fen": f, "moves": [], "searchmoves": [], "ref": "ab", "mode": "mate",
                          "cycle": [], "pre": [], "warm": [], "flipof": 0, "cap": 60000, "ttcap": 0, "w": 4,
                          "why": "candidate forced mate: winning and losing mate scores", "key": [f, [], "mate", [], False]})
        for f in ["7k/5Q2/6K1/8/8/8/8/8 w - - 0 1", "6k1/5ppp/8/8/8/8/8/R3K3 w - - 0 1", "8/8/8/8/8/5k2/6q1/7K w - - 0 1", "kbK5/pp6/1P6/8/8/8/8/R7 w - - 0 1"]:
            a = go_case(cases, f, 3, "plain", w=40, why="mate in 1 preferred over longer mates; mated side gets mate -N")
            go_case(cases, flip_fen(f), 3, "plain", flipof=a["id"], w=40, why="colour-flipped twin")
    rule = ("static evaluation (hook H2) of corpus positions, positions from random legal games and TLC-filtered random material configurations (kings anywhere, 0-13 "
            "further pieces) and of their colour-flipped twins (TLC checks the twin IS Flip(P) and the values are negatives); terminal evaluation of every mate / "
            "stalemate position found, for full-move numbers 1, 37, 1000, 2400 (losing sign for the mated side, later mates better, stalemate 0, flipped twin negated); "
            "fixed-depth searches (d <= 3) on positions and twins must report the same score, and both equal the reference value. distinct_nontrivial = distinct probes")
    return run_search_check("C11", tier, cases, wd, t0, rule, "exploration", ASSUME)

------------------------------ MODULE UciTrace ------------------------------
(* C15: every line handed to CommandParser and every move text handed to UciMove::from_str is one step. *)
EXTENDS UciGrammar, Json, IOUtils, TLC

Rec == ndJsonDeserialize(IOEnv.TRACE)
VARIABLES l, bad, nbad, ntr, ncls
vars == <<l, bad, nbad, ntr, ncls>>
Ev == Rec[l]

Fails(chks) == SelectSeq(chks, LAMBDA c : ~c[1])
Record(chks) ==
  LET f == Fails(chks)
      ns == [i \in 1 .. Len(f) |-> [c |-> Ev.c, l |-> l, ev |-> Ev.ev, p |-> "C15", w |-> f[i][2], x |-> f[i][3]]]
  IN nbad' = nbad + Len(ns) /\ bad' = IF Len(bad) >= 60 THEN bad ELSE bad \o ns
Count(cls) == /\ ntr' = IF cls # "dontcare" THEN ntr \cup {l} ELSE ntr
              /\ ncls' = [ncls EXCEPT ![cls] = @ + 1]

Line ==
  /\ Ev.ev = "uci_line"
  /\ LET r == ParseCommand(Ev.s) IN
     /\ Record(
          << <<Ev.st \in {"ok", "err"}, "the command parser must not panic on: " \o Ev.s \o " -- " \o Ev.st, "ok or err">>,
             <<r[1] = "accept" => Ev.st = "ok", "well-formed command must be parsed: " \o Ev.s, ToString(r[2])>>,
             <<(r[1] = "accept" /\ Ev.st = "ok") => Ev.cmd = r[2], "command parsed to a different value: " \o Ev.s \o " -> " \o ToString(Ev.cmd), ToString(r[2])>>,
             <<r[1] = "reject" => Ev.st # "ok", "ill-formed command must give a parse error, was read as " \o ToString(Ev.cmd) \o ": " \o Ev.s, "err">> >>)
     /\ Count(r[1])

Move ==
  /\ Ev.ev = "uci_move"
  /\ LET c == MoveClass(Ev.s) IN
     /\ Record(
          << <<Ev.st \in {"ok", "err"}, "UciMove::from_str must not panic on: " \o Ev.s \o " -- " \o Ev.st, "ok or err">>,
             <<c = "accept" => (Ev.st = "ok" /\ Ev.back = Ev.s), "move text must parse and format back to itself: " \o Ev.s, Ev.s>>,
             <<c = "reject" => Ev.st # "ok", "bad move text must be rejected, was read as " \o Ev.back \o ": " \o Ev.s, "err">> >>)
     /\ Count(c)

\* a move built from squares and promotion piece: formatted, then parsed back
Fmt ==
  /\ Ev.ev = "uci_fmt"
  /\ LET exp == Ev.from \o Ev.to \o Ev.promo IN
     /\ Record(
          << <<Ev.s2 = exp, "formatting a move", exp>>,
             <<Ev.st2 = "ok" /\ Ev.back2 = Ev.s2, "parsing the formatted move back gives the same move", exp>> >>)
     /\ Count("accept")

\* the harness process died while handling this case
Panic ==
  /\ Ev.ev = "panic"
  /\ Record(<< <<FALSE, "process aborted during " \o Ev.during \o ": " \o Ev.msg, "no abort">> >>)
  /\ UNCHANGED <<ntr, ncls>>

Next == l <= Len(Rec) /\ l' = l + 1 /\ ((Line \/ Move \/ Fmt) \/ Panic)
Init == l = 1 /\ bad = <<>> /\ nbad = 0 /\ ntr = {} /\ ncls = [c \in {"accept", "reject", "dontcare"} |-> 0]
Spec == Init /\ [][Next]_vars
Report == (l = Len(Rec) + 1) => JsonSerialize(IOEnv.OUT, [lines |-> Len(Rec), nbad |-> nbad, bad |-> bad, ntr |-> ntr, ncls |-> ncls])
Consumed == \/ TLCGet("stats").diameter - 1 = Len(Rec)
            \/ PrintT(<<"NOT CONSUMED", TLCGet("stats").diameter - 1, Len(Rec)>>) /\ FALSE
=============================================================================

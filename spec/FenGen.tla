------------------------------- MODULE FenGen -------------------------------
(* Spec -> implementation: FEN texts rendered BY THE SPECIFICATION for every root position with every set *)
(* of castling rights its placement allows and with/without its e.p. target (four-field form; the driver  *)
(* appends clock fields).                                                                                *)
EXTENDS Fen, Json, IOUtils, SequencesExt
Roots == ndJsonDeserialize(IOEnv.ROOTS)
Allowed(p) == (IF p.bd[E1] = WK /\ p.bd[H1] = WR THEN {"K"} ELSE {}) \cup (IF p.bd[E1] = WK /\ p.bd[A1] = WR THEN {"Q"} ELSE {})
         \cup (IF p.bd[E8] = BK /\ p.bd[H8] = BR THEN {"k"} ELSE {}) \cup (IF p.bd[E8] = BK /\ p.bd[A8] = BR THEN {"q"} ELSE {})
Gen == [i \in 1 .. Len(Roots) |->
         LET p == PosOfFen(Roots[i].fen)
         IN SetToSeq({RenderFen4([p EXCEPT !.cr = c, !.ep = e]) : c \in SUBSET Allowed(p), e \in {p.ep, -1}})]
ASSUME JsonSerialize(IOEnv.OUT, Gen)
VARIABLE x
Init == x = 0
Next == UNCHANGED x
=============================================================================

INIT Init
NEXT Next

INIT Init
NEXT Next
INVARIANT Lemma
CHECK_DEADLOCK FALSE
CONSTANT LemmaSquares = {0, 7, 27, 36, 56, 63, 9, 30}

----------------------------- MODULE TablesLemma -----------------------------
(* The reduction from all 2^64 occupancies to the subsets of the relevant mask, checked exhaustively:    *)
(* one state per (kind, square); the invariant quantifies over every subset of the full rays.            *)
EXTENDS AttackTables, TLC, IOUtils
CONSTANT LemmaSquares
VARIABLES kind, s
Init == kind \in {"R", "B"} /\ s \in LemmaSquares
Next == UNCHANGED <<kind, s>>
Lemma == ReductionHolds(kind, s)
=============================================================================

----------------------------- MODULE HashTable -----------------------------
(***************************************************************************)
(* The keyed table behind the transposition table: a map with first-in-    *)
(* first-out eviction, bounded by a capacity >= 1.                         *)
(*   map   : key -> value (a function on the set of stored keys)           *)
(*   queue : the stored keys in order of FIRST insertion (oldest first)    *)
(*   cap   : capacity                                                      *)
(* One action per operation of the implementation.                         *)
(***************************************************************************)
EXTENDS Integers, Sequences, FiniteSets

VARIABLES
  \* @type: Int -> Int;
  map,
  \* @type: Seq(Int);
  queue,
  \* @type: Int;
  cap

\* the empty map (TLC: equal to <<>>; written as a function so that Apalache can type it)
\* @type: Int -> Int;
EmptyMap == [x \in {} |-> 0]

Stored == DOMAIN map
\* @type: (Seq(Int)) => Set(Int);
Range(q) == {q[i] : i \in DOMAIN q}

\* the state after put(k, v), as a record (used by the MC and by the trace spec)
\* @type: (Int -> Int, Seq(Int), Int, Int, Int) => { map: Int -> Int, queue: Seq(Int) };
AfterPut(m, q, c, k, v) ==
  LET m1 == [x \in (DOMAIN m) \cup {k} |-> IF x = k THEN v ELSE m[x]]
      q1 == IF k \in DOMAIN m THEN q ELSE Append(q, k)
  IN IF Cardinality(DOMAIN m1) > c
     THEN [map |-> [x \in (DOMAIN m1) \ {Head(q1)} |-> m1[x]], queue |-> Tail(q1)]
     ELSE [map |-> m1, queue |-> q1]

Put(k, v) ==
  LET a == AfterPut(map, queue, cap, k, v)
  IN map' = a.map /\ queue' = a.queue /\ UNCHANGED cap

\* result of get(k): <<TRUE, value>> or <<FALSE, 0>>
\* @type: (Int -> Int, Int) => <<Bool, Int>>;
GetResult(m, k) == IF k \in DOMAIN m THEN <<TRUE, m[k]>> ELSE <<FALSE, 0>>
Get(k) == UNCHANGED <<map, queue, cap>>

Clear == map' = EmptyMap /\ queue' = <<>> /\ UNCHANGED cap

\* @type: (Int -> Int) => Int;
LenOf(m) == Cardinality(DOMAIN m)

----------------------------------------------------------------------------
(* invariants (C18) *)
Bounded == Cardinality(Stored) <= cap
QueueIsStored == Range(queue) = Stored
QueueNoDup == Cardinality(Range(queue)) = Len(queue)
Inv == Bounded /\ QueueIsStored /\ QueueNoDup
=============================================================================

-------------------------------- MODULE Fen --------------------------------
(***************************************************************************)
(* Forsyth-Edwards notation as an executable definition over TLC strings:  *)
(* RenderFen(pos) writes the canonical six-field text of a position,       *)
(* ParseFen(str) reads one by scanning characters, FenClass(str) is the    *)
(* three-valued classifier of Appendix B.2 of DESIGN.md.                   *)
(* Clocks are kept as decimal STRINGS at this level (TLC integers are      *)
(* 32-bit; the property speaks of clocks of any magnitude); ParseFen       *)
(* converts them to integers only when they have at most nine digits.      *)
(***************************************************************************)
EXTENDS Chess, TLC

Ch(s, i) == SubSeq(s, i, i)
Digits == {"0", "1", "2", "3", "4", "5", "6", "7", "8", "9"}
DigitVal(c) == CASE c = "0" -> 0 [] c = "1" -> 1 [] c = "2" -> 2 [] c = "3" -> 3 [] c = "4" -> 4
                 [] c = "5" -> 5 [] c = "6" -> 6 [] c = "7" -> 7 [] c = "8" -> 8 [] c = "9" -> 9
IsDigits(s) == Len(s) > 0 /\ \A i \in 1 .. Len(s) : Ch(s, i) \in Digits

RECURSIVE ParseNatAcc(_, _, _)
ParseNatAcc(s, i, acc) == IF i > Len(s) THEN acc ELSE ParseNatAcc(s, i + 1, acc * 10 + DigitVal(Ch(s, i)))
ParseNat(s) == ParseNatAcc(s, 1, 0)

\* strip leading zeros (keeping one digit)
RECURSIVE Canon(_)
Canon(s) == IF Len(s) > 1 /\ Ch(s, 1) = "0" THEN Canon(SubSeq(s, 2, Len(s))) ELSE s

\* split on a one-character separator; "a  b" gives <<"a","","b">>
RECURSIVE SplitAcc(_, _, _, _, _)
SplitAcc(s, sep, i, cur, acc) ==
  IF i > Len(s) THEN Append(acc, cur)
  ELSE IF Ch(s, i) = sep THEN SplitAcc(s, sep, i + 1, "", Append(acc, cur))
       ELSE SplitAcc(s, sep, i + 1, cur \o Ch(s, i), acc)
Split(s, sep) == SplitAcc(s, sep, 1, "", <<>>)

PieceChar == <<"P", "N", "B", "R", "Q", "K", "p", "n", "b", "r", "q", "k">>
PieceOfChar(c) == CASE c = "P" -> 1 [] c = "N" -> 2 [] c = "B" -> 3 [] c = "R" -> 4 [] c = "Q" -> 5 [] c = "K" -> 6
                    [] c = "p" -> 7 [] c = "n" -> 8 [] c = "b" -> 9 [] c = "r" -> 10 [] c = "q" -> 11 [] c = "k" -> 12
                    [] OTHER -> 0
PieceChars == {PieceChar[i] : i \in 1 .. 12}

(***************************************************************************)
(* Rendering                                                               *)
(***************************************************************************)
RECURSIVE RenderRank(_, _, _, _)
RenderRank(bd, r, f, run) ==
  IF f = 8 THEN (IF run > 0 THEN ToString(run) ELSE "")
  ELSE LET p == bd[Sq(f, r)]
       IN IF p = 0 THEN RenderRank(bd, r, f + 1, run + 1)
          ELSE (IF run > 0 THEN ToString(run) ELSE "") \o PieceChar[p] \o RenderRank(bd, r, f + 1, 0)

RenderPlacement(bd) ==
  RenderRank(bd, 7, 0, 0) \o "/" \o RenderRank(bd, 6, 0, 0) \o "/" \o RenderRank(bd, 5, 0, 0) \o "/" \o
  RenderRank(bd, 4, 0, 0) \o "/" \o RenderRank(bd, 3, 0, 0) \o "/" \o RenderRank(bd, 2, 0, 0) \o "/" \o
  RenderRank(bd, 1, 0, 0) \o "/" \o RenderRank(bd, 0, 0, 0)

RenderRights(cr) ==
  IF cr = {} THEN "-"
  ELSE (IF "K" \in cr THEN "K" ELSE "") \o (IF "Q" \in cr THEN "Q" ELSE "") \o
       (IF "k" \in cr THEN "k" ELSE "") \o (IF "q" \in cr THEN "q" ELSE "")

RenderEp(ep) == IF ep = -1 THEN "-" ELSE SqName[ep]

\* the four fields that identify the position (no clocks)
RenderFen4(pos) ==
  RenderPlacement(pos.bd) \o " " \o pos.stm \o " " \o RenderRights(pos.cr) \o " " \o RenderEp(pos.ep)

RenderFen(pos) == RenderFen4(pos) \o " " \o ToString(pos.hmc) \o " " \o ToString(pos.fmn)

\* with clocks given as strings (any magnitude)
RenderFenS(pos, hmcS, fmnS) == RenderFen4(pos) \o " " \o hmcS \o " " \o fmnS

(***************************************************************************)
(* Parsing                                                                 *)
(***************************************************************************)
\* one rank string -> [ok, cells] where cells is a sequence of 8 piece codes
RECURSIVE ParseRankAcc(_, _, _, _)
ParseRankAcc(s, i, cells, prevDigit) ==
  IF i > Len(s) THEN [ok |-> Len(cells) = 8, cells |-> cells]
  ELSE LET c == Ch(s, i)
       IN IF c \in {"1", "2", "3", "4", "5", "6", "7", "8"}
          THEN IF prevDigit THEN [ok |-> FALSE, cells |-> cells]
               ELSE ParseRankAcc(s, i + 1, cells \o [k \in 1 .. DigitVal(c) |-> 0], TRUE)
          ELSE IF c \in PieceChars
               THEN ParseRankAcc(s, i + 1, Append(cells, PieceOfChar(c)), FALSE)
               ELSE [ok |-> FALSE, cells |-> cells]
ParseRank(s) == ParseRankAcc(s, 1, <<>>, FALSE)

ParsePlacement(s) ==
  LET rs == Split(s, "/")
  IN IF Len(rs) # 8 THEN [ok |-> FALSE, bd |-> [q \in Squares |-> 0]]
     ELSE LET pr == [i \in 1 .. 8 |-> ParseRank(rs[i])]
          IN IF \E i \in 1 .. 8 : ~pr[i].ok THEN [ok |-> FALSE, bd |-> [q \in Squares |-> 0]]
             ELSE [ok |-> TRUE,
                   bd |-> [q \in Squares |-> pr[8 - RankOf(q)].cells[FileOf(q) + 1]]]

RightChars == {"K", "Q", "k", "q"}
ParseRights(s) ==
  IF s = "-" THEN [ok |-> TRUE, cr |-> {}]
  ELSE LET cs == {Ch(s, i) : i \in 1 .. Len(s)}
       IN [ok |-> Len(s) > 0 /\ cs \subseteq RightChars /\ Cardinality(cs) = Len(s), cr |-> cs]

SquareOfName(s) ==
  IF Len(s) = 2 /\ \E f \in 1 .. 8 : FileNames[f] = Ch(s, 1) /\ \E r \in 1 .. 8 : RankNames[r] = Ch(s, 2)
  THEN Sq((CHOOSE f \in 1 .. 8 : FileNames[f] = Ch(s, 1)) - 1, (CHOOSE r \in 1 .. 8 : RankNames[r] = Ch(s, 2)) - 1)
  ELSE -1

ParseEp(s) == IF s = "-" THEN [ok |-> TRUE, ep |-> -1]
              ELSE LET q == SquareOfName(s) IN [ok |-> q # -1, ep |-> q]

NoPos == [bd |-> [q \in Squares |-> 0], stm |-> "w", cr |-> {}, ep |-> -1, hmc |-> 0, fmn |-> 1]

\* [ok, pos, hmcS, fmnS]; integers only when the clock strings have <= 9 digits (else 0)
ParseFen(str) ==
  LET fs == Split(str, " ")
      n == Len(fs)
      bad == [ok |-> FALSE, pos |-> NoPos, hmcS |-> "0", fmnS |-> "1"]
  IN IF n \notin {4, 6} THEN bad
     ELSE LET pp == ParsePlacement(fs[1])
              pr == ParseRights(fs[3])
              pe == ParseEp(fs[4])
              hS == IF n = 6 THEN fs[5] ELSE "0"
              fS == IF n = 6 THEN fs[6] ELSE "1"
          IN IF ~pp.ok \/ fs[2] \notin {"w", "b"} \/ ~pr.ok \/ ~pe.ok \/ ~IsDigits(hS) \/ ~IsDigits(fS)
             THEN bad
             ELSE [ok |-> TRUE,
                   pos |-> [bd |-> pp.bd, stm |-> fs[2], cr |-> pr.cr, ep |-> pe.ep,
                            hmc |-> IF Len(Canon(hS)) <= 9 THEN ParseNat(Canon(hS)) ELSE 0,
                            fmn |-> IF Len(Canon(fS)) <= 9 THEN ParseNat(Canon(fS)) ELSE 0],
                   hmcS |-> hS, fmnS |-> fS]

PosOfFen(str) == ParseFen(str).pos

(***************************************************************************)
(* Three-valued classification (Appendix B.2 of DESIGN.md).                *)
(***************************************************************************)
NoLeadingZero(n) == Len(n) = 1 \/ Ch(n, 1) # "0"
FenClass(str) ==
  LET pf == ParseFen(str)
      n == Len(Split(str, " "))
  IN IF str = "startpos" THEN "dontcare"
     ELSE IF ~pf.ok THEN "reject"
     ELSE IF /\ WellFormed(pf.pos)
             /\ Len(pf.hmcS) <= 9 /\ Len(pf.fmnS) <= 9 /\ NoLeadingZero(pf.hmcS) /\ NoLeadingZero(pf.fmnS)
             /\ str = (IF n = 6 THEN RenderFenS(pf.pos, pf.hmcS, pf.fmnS) ELSE RenderFen4(pf.pos))
          THEN "accept"
          ELSE "dontcare"

\* the 64 cells in order a1, b1, ... h8 as one string ("." = empty)
CellsOf(bd) ==
  LET RECURSIVE Row(_)
      Row(q) == IF q = 64 THEN "" ELSE (IF bd[q] = 0 THEN "." ELSE PieceChar[bd[q]]) \o Row(q + 1)
  IN Row(0)
=============================================================================

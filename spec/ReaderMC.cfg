SPECIFICATION Spec
CONSTANTS
  MaxLen = 9
  MaxChunk = 4
INVARIANT DeliveredIsSource
INVARIANT EofOnlyAtEnd
INVARIANT WindowWithinChunk
PROPERTY AllDelivered
CHECK_DEADLOCK FALSE

------------------------------- MODULE UciOut -------------------------------
(***************************************************************************)
(* The engine -> GUI line grammar of the UCI protocol (Appendix B.5 of     *)
(* DESIGN.md) as a recogniser over the characters of a line, written for   *)
(* TLC's string operators.  ParseEngineLine(s) returns a record            *)
(*   [ok, kind, num, pv, haspv, score, best, ponder]                       *)
(* where num maps the numeric info keys to their numeral (or "none").      *)
(***************************************************************************)
EXTENDS Fen, SequencesExt

Tokens(s) == SelectSeq(Split(s, " "), LAMBDA t : t # "")

IsUInt(t) == IsDigits(t)
IsSInt(t) == IsDigits(t) \/ (Len(t) > 1 /\ Ch(t, 1) = "-" /\ IsDigits(SubSeq(t, 2, Len(t))))
FileChars == {"a", "b", "c", "d", "e", "f", "g", "h"}
RankChars == {"1", "2", "3", "4", "5", "6", "7", "8"}
IsMoveText(t) ==
  /\ Len(t) \in {4, 5}
  /\ Ch(t, 1) \in FileChars /\ Ch(t, 2) \in RankChars /\ Ch(t, 3) \in FileChars /\ Ch(t, 4) \in RankChars
  /\ (Len(t) = 5 => Ch(t, 5) \in {"q", "r", "b", "n"})

NumKeys == {"depth", "seldepth", "time", "nodes", "multipv", "currmovenumber", "hashfull", "nps", "tbhits", "sbhits", "cpuload"}
InfoKeys == NumKeys \cup {"pv", "score", "currmove", "refutation", "currline", "string"}

NoScore == [kind |-> "none", v |-> "0", bound |-> "none"]
Blank == [ok |-> TRUE, kind |-> "other", num |-> [k \in NumKeys |-> "none"], pv |-> <<>>, haspv |-> FALSE,
          score |-> NoScore, best |-> "none", ponder |-> "none", seen |-> {}]
Bad == [Blank EXCEPT !.ok = FALSE]

\* index after the longest run of move tokens starting at i
RECURSIVE MovesEnd(_, _)
MovesEnd(t, i) == IF i <= Len(t) /\ IsMoveText(t[i]) THEN MovesEnd(t, i + 1) ELSE i

RECURSIVE PInfo(_, _, _)
PInfo(t, i, acc) ==
  IF i > Len(t) THEN acc
  ELSE LET k == t[i] IN
    IF k \in acc.seen THEN Bad                     \* each item at most once
    ELSE IF k \in NumKeys THEN
      IF i + 1 <= Len(t) /\ IsUInt(t[i + 1])
      THEN PInfo(t, i + 2, [acc EXCEPT !.num = [@ EXCEPT ![k] = Canon(t[i + 1])], !.seen = @ \cup {k}])
      ELSE Bad
    ELSE IF k \in {"pv", "refutation"} THEN
      LET e == MovesEnd(t, i + 1)
      IN IF e = i + 1 THEN Bad
         ELSE PInfo(t, e, IF k = "pv" THEN [acc EXCEPT !.pv = SubSeq(t, i + 1, e - 1), !.haspv = TRUE, !.seen = @ \cup {k}]
                                        ELSE [acc EXCEPT !.seen = @ \cup {k}])
    ELSE IF k = "currline" THEN
      IF i + 1 <= Len(t) /\ IsUInt(t[i + 1]) THEN PInfo(t, MovesEnd(t, i + 2), [acc EXCEPT !.seen = @ \cup {k}]) ELSE Bad
    ELSE IF k = "currmove" THEN
      IF i + 1 <= Len(t) /\ IsMoveText(t[i + 1]) THEN PInfo(t, i + 2, [acc EXCEPT !.seen = @ \cup {k}]) ELSE Bad
    ELSE IF k = "score" THEN
      IF i + 2 <= Len(t) /\ t[i + 1] \in {"cp", "mate"} /\ IsSInt(t[i + 2])
      THEN LET b == IF i + 3 <= Len(t) /\ t[i + 3] \in {"lowerbound", "upperbound"} THEN t[i + 3] ELSE "none"
           IN PInfo(t, IF b = "none" THEN i + 3 ELSE i + 4,
                    [acc EXCEPT !.score = [kind |-> t[i + 1], v |-> t[i + 2], bound |-> b], !.seen = @ \cup {k}])
      ELSE Bad
    ELSE IF k = "string" THEN acc                  \* rest of the line is free text
    ELSE Bad

Protection == {"checking", "ok", "error"}
OptionTypes == {"check", "spin", "combo", "button", "string"}

ParseEngineLine(s) ==
  LET t == Tokens(s)
      n == Len(t)
  IN IF n = 0 THEN Bad
     ELSE CASE t[1] = "info" -> [PInfo(t, 2, Blank) EXCEPT !.kind = "info"]
            [] t[1] = "bestmove" ->
                 IF n = 2 /\ (IsMoveText(t[2]) \/ t[2] = "0000")
                 THEN [Blank EXCEPT !.kind = "bestmove", !.best = IF t[2] = "0000" THEN "none" ELSE t[2]]
                 ELSE IF n = 4 /\ (IsMoveText(t[2]) \/ t[2] = "0000") /\ t[3] = "ponder" /\ IsMoveText(t[4])
                 THEN [Blank EXCEPT !.kind = "bestmove", !.best = IF t[2] = "0000" THEN "none" ELSE t[2], !.ponder = t[4]]
                 ELSE Bad
            [] t[1] = "id" -> IF n >= 3 /\ t[2] \in {"name", "author"} THEN [Blank EXCEPT !.kind = "id"] ELSE Bad
            [] t[1] = "uciok" -> IF n = 1 THEN [Blank EXCEPT !.kind = "uciok"] ELSE Bad
            [] t[1] = "readyok" -> IF n = 1 THEN [Blank EXCEPT !.kind = "readyok"] ELSE Bad
            [] t[1] \in {"copyprotection", "registration"} ->
                 IF n = 2 /\ t[2] \in Protection THEN [Blank EXCEPT !.kind = t[1]] ELSE Bad
            [] t[1] = "option" ->
                 IF n >= 5 /\ t[2] = "name" /\ \E j \in 4 .. n - 1 : t[j] = "type" /\ t[j + 1] \in OptionTypes
                 THEN [Blank EXCEPT !.kind = "option"] ELSE Bad
            [] OTHER -> Bad

\* numerals: canonical decimal strings compared by length, then digit by digit
RECURSIVE LexLE(_, _, _)
LexLE(a, b, i) == IF i > Len(a) THEN TRUE
                  ELSE IF DigitVal(Ch(a, i)) < DigitVal(Ch(b, i)) THEN TRUE
                  ELSE IF DigitVal(Ch(a, i)) > DigitVal(Ch(b, i)) THEN FALSE
                  ELSE LexLE(a, b, i + 1)
NumLE(a, b) == Len(a) < Len(b) \/ (Len(a) = Len(b) /\ LexLE(a, b, 1))
=============================================================================

//! ikv — conformance harness binding the TLA+ specification in /verif/spec to marvk/inkayaku.
//!
//! The harness only *drives* the implementation and *records* what it observes, one JSON event
//! per line (arguments, results and the projected abstract state).  It judges nothing: every
//! comparison is made by TLC against the specification.
use std::env;
use std::process::exit;

mod util;
mod board;
mod keys;
mod table;
mod tables;
mod engine;
mod fen;
mod ucifam;
mod lichess;
mod pgn;
mod search;

fn main() {
    let args: Vec<String> = env::args().collect();
    if args.len() < 2 {
        eprintln!("usage: ikv <family> <args…>");
        exit(2);
    }
    let rest = &args[2..];
    let code = match args[1].as_str() {
        "board" => board::run(rest),
        "keys" => keys::run(rest),
        "table" => table::run(rest),
        "tables" => tables::run(rest),
        "engine" => engine::run(rest),
        "fen" => fen::run(rest),
        "uci" => ucifam::run(rest),
        "lichess" => lichess::run(rest),
        "pgn" => pgn::run(rest),
        "search" => search::run(rest),
        other => {
            eprintln!("unknown family {}", other);
            2
        }
    };
    exit(code);
}

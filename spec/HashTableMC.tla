---------------------------- MODULE HashTableMC ----------------------------
(* All histories of put/get/clear over a small key universe and every capacity in Caps.  The state     *)
(* graph is closed (no depth bound needed).  With PRINT = TRUE every transition taken from a distinct   *)
(* state is printed as an operation history (shortest path to the state + the operation): the state     *)
(* graph is the test suite, one implementation test per transition (replayed through the harness and    *)
(* validated by HashTableTrace).                                                                       *)
EXTENDS HashTable, TLC, Json

CONSTANTS Keys, Vals, Caps, PRINT
VARIABLES hist     \* operation history (hidden from the state by VIEW)

Op(o, k, v) == [op |-> o, k |-> k, v |-> v]

Init == /\ map = EmptyMap /\ queue = <<>> /\ cap \in Caps /\ hist = <<>>

Emit(h) == PRINT => PrintT(<<"REPLAY", ToJson([cap |-> cap, ops |-> h])>>)

Next ==
  \/ \E k \in Keys, v \in Vals : Put(k, v) /\ hist' = Append(hist, Op("put", k, v)) /\ Emit(hist')
  \/ \E k \in Keys : Get(k) /\ hist' = Append(hist, Op("get", k, 0)) /\ Emit(hist')
  \/ Clear /\ hist' = Append(hist, Op("clear", 0, 0)) /\ Emit(hist')

Spec == Init /\ [][Next]_<<map, queue, cap, hist>>
View == <<map, queue, cap>>

\* properties of the design
EvictsOldest ==
  [][\A k \in Keys : (k \in Stored /\ k \notin DOMAIN map' /\ map' # EmptyMap) => k = Head(queue)]_<<map, queue, cap>>
LookupExact == \A k \in Keys : GetResult(map, k)[1] <=> k \in Range(queue)
=============================================================================

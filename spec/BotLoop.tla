------------------------------ MODULE BotLoop ------------------------------
(* Design model of lichess_bot/src/bot.rs (GameThread) around the engine: the part of the system that no listed      *)
(* property talks about and that cannot be driven offline (concrete HTTP client).  One action per step of the code:   *)
(*   game thread   : `start` consumes one stream event, `accept_state` sends `position` and `go` as TWO channel sends *)
(*   search thread : `idle` receives one message; `check_messages` (poll during a search) drains the channel and      *)
(*                   drops position/go ("Ignore during go", search.rs); a finished search emits one bestmove          *)
(*   rx thread     : `spawn_engine_rx_thread` posts every bestmove and `unwrap`s the HTTP result                      *)
(*   server        : Lichess as environment - accepts a move only from the side to move, appends a gameState event    *)
(*                   after every accepted move, and may repeat the current state (draw / take-back offers change      *)
(*                   only flags of the gameState event; bounded by MaxExtra)                                          *)
(* The game is abstracted to its ply count n; the bot is White (moves when n is even).  A best move computed for      *)
(* ply count k is what the server expects only when k = n.                                                            *)
(* Its two ends are bound to the code elsewhere: the event decoding by Lichess.tla / LichessTrace (C19), the engine   *)
(* steps (idle receive, drop at poll, one answer per started search) by EngineMC / EngineTrace (C07, C09).            *)
EXTENDS Naturals, Sequences

CONSTANTS MaxPly, MaxExtra
ASSUME MaxPly % 2 = 1     \* the bounded game ends with the opponent to move, so the bound itself rejects no post

VARIABLES n,        \* plies played on the server
          stream,   \* events not yet consumed by the game thread: ply counts
          extra,    \* repeated states emitted so far
          pc,       \* game thread: "recv" | "sendgo" (between its two channel sends)
          pk,       \* ply count of the event being handled
          chan,     \* engine channel: <<"pos", k>> | <<"go">>
          eng,      \* "idle" | "search"
          epos,     \* position the engine holds (ply count)
          spos,     \* position the running search was started on
          out,      \* bestmoves on their way to the rx thread (ply count searched)
          rxAlive,  \* FALSE after `post_bot_move(..).unwrap()` met a rejection
          stale     \* ghost: a bestmove computed for another position reached the server

vars == <<n, stream, extra, pc, pk, chan, eng, epos, spos, out, rxAlive, stale>>

MyTurn(k) == k % 2 = 0

Init == /\ n = 0 /\ stream = <<0>> /\ extra = 0 /\ pc = "recv" /\ pk = 0 /\ chan = <<>> /\ eng = "idle"
        /\ epos = 0 /\ spos = 0 /\ out = <<>> /\ rxAlive = TRUE /\ stale = FALSE

ServerOpponentMoves == /\ ~MyTurn(n) /\ n < MaxPly
                       /\ n' = n + 1 /\ stream' = Append(stream, n + 1)
                       /\ UNCHANGED <<extra, pc, pk, chan, eng, epos, spos, out, rxAlive, stale>>

ServerRepeatsState == /\ extra < MaxExtra /\ n < MaxPly
                      /\ extra' = extra + 1 /\ stream' = Append(stream, n)
                      /\ UNCHANGED <<n, pc, pk, chan, eng, epos, spos, out, rxAlive, stale>>

(* accept_state: is_my_turn(moves) ? engine.accept(PositionFrom) ; engine.accept(Go) *)
BotRecv == /\ pc = "recv" /\ stream # <<>>
           /\ stream' = Tail(stream) /\ pk' = Head(stream)
           /\ IF MyTurn(Head(stream)) THEN pc' = "sendgo" /\ chan' = Append(chan, <<"pos", Head(stream)>>)
                                      ELSE pc' = "recv" /\ chan' = chan
           /\ UNCHANGED <<n, extra, eng, epos, spos, out, rxAlive, stale>>

BotSendGo == /\ pc = "sendgo" /\ pc' = "recv" /\ chan' = Append(chan, <<"go">>)
             /\ UNCHANGED <<n, stream, extra, pk, eng, epos, spos, out, rxAlive, stale>>

EngineIdleRecv == /\ eng = "idle" /\ chan # <<>> /\ chan' = Tail(chan)
                  /\ IF Head(chan)[1] = "pos" THEN epos' = Head(chan)[2] /\ UNCHANGED <<eng, spos>>
                                              ELSE eng' = "search" /\ spos' = epos /\ UNCHANGED epos
                  /\ UNCHANGED <<n, stream, extra, pc, pk, out, rxAlive, stale>>

EnginePoll == /\ eng = "search" /\ chan # <<>> /\ chan' = <<>>     \* try_recv until empty, position/go ignored
              /\ UNCHANGED <<n, stream, extra, pc, pk, eng, epos, spos, out, rxAlive, stale>>

EngineFinish == /\ eng = "search" /\ eng' = "idle" /\ out' = Append(out, spos)
                /\ UNCHANGED <<n, stream, extra, pc, pk, chan, epos, spos, rxAlive, stale>>

RxPost == /\ rxAlive /\ out # <<>> /\ out' = Tail(out)
          /\ IF MyTurn(n) /\ n < MaxPly
               THEN /\ n' = n + 1 /\ stream' = Append(stream, n + 1) /\ rxAlive' = TRUE
                    /\ stale' = (stale \/ Head(out) # n)     \* accepted by chance: a move thought out for another position
               ELSE /\ rxAlive' = FALSE /\ UNCHANGED <<n, stream, stale>>   \* HTTP 400, unwrap panics the thread
          /\ UNCHANGED <<extra, pc, pk, chan, eng, epos, spos>>

Next == ServerOpponentMoves \/ ServerRepeatsState \/ BotRecv \/ BotSendGo
        \/ EngineIdleRecv \/ EnginePoll \/ EngineFinish \/ RxPost

Fair == WF_vars(BotRecv) /\ WF_vars(BotSendGo) /\ WF_vars(EngineIdleRecv) /\ WF_vars(EngineFinish) /\ WF_vars(RxPost)
        /\ WF_vars(ServerOpponentMoves)

Spec == Init /\ [][Next]_vars /\ Fair

TypeOK == /\ n \in 0 .. MaxPly /\ extra \in 0 .. MaxExtra /\ pc \in {"recv", "sendgo"} /\ eng \in {"idle", "search"}
          /\ epos \in 0 .. MaxPly /\ spos \in 0 .. MaxPly /\ rxAlive \in BOOLEAN /\ stale \in BOOLEAN

RxNeverDies == rxAlive                 \* no bestmove is posted when it is not the bot's turn
NoStaleMove == ~stale                  \* no move computed for another position is played
AtMostOneGoQueued == Len(out) <= 1     \* at most one answer under way
GamePlayed == <>(n = MaxPly)           \* the game is played to the end of the bound (nobody stalls)
=============================================================================

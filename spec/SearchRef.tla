------------------------------- MODULE SearchRef -------------------------------
(***************************************************************************)
(* The reference game-tree value the engine's fixed-depth search must      *)
(* report (C08, C10, C11).  The static evaluation is OPAQUE: EV maps the   *)
(* four-field FEN of a position to the engine's own "ongoing" evaluation   *)
(* (white-centric, obtained through hook H2 for exactly the positions of   *)
(* the reference tree); the specification adds everything else itself:     *)
(* side-to-move sign, the fifty-move rule at 100 plies, mate / stalemate   *)
(* at move-less nodes, capture resolution, minimax, mate distance.         *)
(* Two forms: plain (no pruning; the independent one) and alpha-beta       *)
(* (fail-hard; for dense positions); SelfTest checks they agree.           *)
(***************************************************************************)
EXTENDS Draws, UciOut

MateBase == 1000000
Missing == 1500000          \* sentinel: a position of the reference tree is not in the table (between mate values and Inf)
Inf == 2000000

Sign(pos) == IF pos.stm = "w" THEN 1 ELSE -1
Max2(a, b) == IF a >= b THEN a ELSE b
MaxOf(S) == CHOOSE x \in S : \A y \in S : x >= y

\* value of a non-terminal position without searching on, from the mover's point of view
\* EV is a record [f |-> table, d |-> DOMAIN table]: the domain is computed once by the caller (TLC would otherwise
\* rebuild and re-sort it at every lookup)
Table(evals) == [f |-> evals, d |-> DOMAIN evals]
Stand(EV, pos) ==
  IF pos.hmc >= 100 THEN 0
  ELSE LET k == RenderFen4(pos) IN IF k \in EV.d THEN Sign(pos) * EV.f[k] ELSE Missing

\* exhaustive capture / promotion resolution with stand-pat (no mate detection inside, as the engine states)
RECURSIVE QFull(_, _)
QFull(EV, pos) ==
  MaxOf({Stand(EV, pos)} \cup {-QFull(EV, Apply(pos, m)) : m \in NonQuiet(pos)})

\* plain negamax: move-less = mate (by plies from the root) or stalemate, horizon = QFull
RECURSIVE NM(_, _, _, _)
NM(EV, pos, d, ply) ==
  LET L == Legal(pos) IN
  IF L = {} THEN (IF InCheck(pos.bd, pos.stm) THEN -(MateBase - ply) ELSE 0)
  ELSE IF d = 0 THEN QFull(EV, pos)
  ELSE MaxOf({-NM(EV, Apply(pos, m), d - 1, ply + 1) : m \in L})

\* root with an optional searchmoves restriction: <<value, set of best moves>>
RootMoves(pos, sm) == LET L == Legal(pos) U == {m \in L : Uci(m) \in sm} IN IF sm = {} \/ U = {} THEN L ELSE U
BestOfPairs(P) == LET v == MaxOf({q[2] : q \in P}) IN <<v, {q[1] : q \in {r \in P : r[2] = v}}>>
RootPlain(EV, pos, d, sm) ==
  IF Legal(pos) = {} THEN <<NM(EV, pos, d, 0), {"none"}>> ELSE
  BestOfPairs({<<Uci(m), -NM(EV, Apply(pos, m), d - 1, 1)>> : m \in RootMoves(pos, sm)})

----------------------------------------------------------------------------
(* fail-hard alpha-beta forms: the result is the true value clamped to [alpha, beta] *)
\* most valuable victim first (any order gives the same result; this one prunes more)
VictimOrder(pos, S) ==
  LET Val(m) == IF pos.bd[m.to] = 0 THEN (IF m.promo # 0 THEN 8 ELSE 1) ELSE KindOf(pos.bd[m.to]) * 10 - KindOf(pos.bd[m.from])
      RECURSIVE F(_)
      F(T) == IF T = {} THEN <<>> ELSE LET x == CHOOSE y \in T : \A z \in T : Val(y) >= Val(z) IN <<x>> \o F(T \ {x})
  IN F(S)

RECURSIVE QAB(_, _, _, _)
RECURSIVE QLoop(_, _, _, _, _, _)
QLoop(EV, pos, ms, i, alpha, beta) ==
  IF i > Len(ms) THEN alpha
  ELSE LET v == -QAB(EV, Apply(pos, ms[i]), -beta, -alpha)
       IN IF v >= beta THEN beta ELSE QLoop(EV, pos, ms, i + 1, Max2(alpha, v), beta)
QAB(EV, pos, alpha, beta) ==
  LET sp == Stand(EV, pos)
  IN IF sp >= beta THEN beta
     ELSE QLoop(EV, pos, VictimOrder(pos, NonQuiet(pos)), 1, Max2(alpha, sp), beta)

RECURSIVE NMAB(_, _, _, _, _, _)
RECURSIVE NLoop(_, _, _, _, _, _, _, _)
NLoop(EV, pos, ms, i, d, ply, alpha, beta) ==
  IF i > Len(ms) THEN alpha
  ELSE LET v == -NMAB(EV, Apply(pos, ms[i]), d - 1, ply + 1, -beta, -alpha)
       IN IF v >= beta THEN beta ELSE NLoop(EV, pos, ms, i + 1, d, ply, Max2(alpha, v), beta)
Clamp(v, alpha, beta) == IF v <= alpha THEN alpha ELSE IF v >= beta THEN beta ELSE v
NMAB(EV, pos, d, ply, alpha, beta) ==
  LET L == Legal(pos) IN
  IF L = {} THEN Clamp(IF InCheck(pos.bd, pos.stm) THEN -(MateBase - ply) ELSE 0, alpha, beta)
  ELSE IF d = 0 THEN QAB(EV, pos, alpha, beta)
  ELSE NLoop(EV, pos, VictimOrder(pos, L), 1, d, ply, alpha, beta)

\* value by alpha-beta, and whether a given root move attains it (one extra full-window search of its child)
RootAB(EV, pos, d, sm) ==
  LET R == RootMoves(pos, sm) IN IF R = {} THEN NM(EV, pos, d, 0) ELSE NLoop(EV, pos, VictimOrder(pos, R), 1, d, 0, -Inf, Inf)
AttainsAB(EV, pos, d, uci, v) ==
  \E m \in Legal(pos) : Uci(m) = uci /\ -NMAB(EV, Apply(pos, m), d - 1, 1, -Inf, Inf) = v

----------------------------------------------------------------------------
(* History-aware search value for C10: a node (other than the root) whose position has then occurred three times  *)
(* inside the reversible window is a draw leaf.  The sign of the contempt offset is not fixed by the property, so  *)
(* the leaf is valued r FROM THE ROOT MOVER'S POINT OF VIEW with r = -c and r = +c: the root value is monotone in   *)
(* its leaves, hence the two results bracket what any sign convention can report.                                 *)
RECURSIVE NMR(_, _, _, _, _, _, _)
RECURSIVE RLoop(_, _, _, _, _, _, _, _, _)
RLoop(EV, hist, ms, i, d, ply, alpha, beta, r) ==
  IF i > Len(ms) THEN alpha
  ELSE LET pos == hist[Len(hist)]
           v == -NMR(EV, Append(hist, Apply(pos, ms[i])), d - 1, ply + 1, -beta, -alpha, r)
       IN IF v >= beta THEN beta ELSE RLoop(EV, hist, ms, i + 1, d, ply, Max2(alpha, v), beta, r)
NMR(EV, hist, d, ply, alpha, beta, r) ==
  LET pos == hist[Len(hist)]
      L == Legal(pos)
  IN IF ply > 0 /\ RepetitionDraw(hist) THEN Clamp(IF ply % 2 = 0 THEN r ELSE -r, alpha, beta)
     ELSE IF L = {} THEN Clamp(IF InCheck(pos.bd, pos.stm) THEN -(MateBase - ply) ELSE 0, alpha, beta)
     ELSE IF d = 0 THEN QAB(EV, pos, alpha, beta)
     ELSE RLoop(EV, hist, VictimOrder(pos, L), 1, d, ply, alpha, beta, r)
RootR(EV, hist, d, sm, r) ==
  LET pos == hist[Len(hist)]
      R == RootMoves(pos, sm)
  IN IF R = {} THEN 0 ELSE RLoop(EV, hist, VictimOrder(pos, R), 1, d, 0, -Inf, Inf, r)

----------------------------------------------------------------------------
\* what the engine must print for a root value: centipawns, or mate in N moves (N = ceil(plies / 2), sign from the mover)
ToUciScore(v) ==
  IF v > MateBase - 1000 THEN [kind |-> "mate", v |-> ToString((MateBase - v + 1) \div 2)]
  ELSE IF v < -(MateBase - 1000) THEN [kind |-> "mate", v |-> "-" \o ToString((MateBase + v) \div 2)]
  ELSE [kind |-> "cp", v |-> ToString(v)]

\* the tree's positions that are not in the table (diagnosis of a Missing result)
RECURSIVE Keys(_, _)
Keys(pos, d) ==
  LET L == Legal(pos) IN
  IF L = {} THEN {}
  ELSE IF d = 0 THEN LET RECURSIVE QK(_) QK(p) == {RenderFen4(p)} \cup UNION {QK(Apply(p, m)) : m \in NonQuiet(p)} IN QK(pos)
  ELSE UNION {Keys(Apply(pos, m), d - 1) : m \in L}
=============================================================================

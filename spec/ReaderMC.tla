------------------------------- MODULE ReaderMC -------------------------------
(***************************************************************************)
(* Design model of the PGN reader's refillable window (pgn/src/reader.rs:  *)
(* ensure_buffer / peek_byte / pop_byte) over a byte source whose read()   *)
(* may return any number of bytes between 1 and what was asked for.        *)
(* Source bytes are 1..N (distinct), so "the delivered stream equals the   *)
(* source" is a prefix statement.  All chunk sizes 1..MaxChunk, all source *)
(* lengths 0..MaxLen, all fragmentations.                                  *)
(***************************************************************************)
EXTENDS Integers, Sequences

CONSTANTS MaxLen, MaxChunk
VARIABLES n,      \* source length
          chunk,  \* configured chunk size
          off,    \* bytes already read from the source
          buf,    \* current_buffer (its LENGTH shrinks after a short read, as in the code)
          cur,    \* current_byte
          eof,    \* eof_reached
          out     \* bytes delivered by pop_byte, in order
vars == <<n, chunk, off, buf, cur, eof, out>>

Init == /\ n \in 0 .. MaxLen /\ chunk \in 1 .. MaxChunk
        /\ off = 0 /\ buf = [i \in 1 .. chunk |-> 0] /\ cur = chunk /\ eof = FALSE /\ out = <<>>

\* ensure_buffer when the window is used up: one read() into the window
Refill ==
  /\ cur >= Len(buf)
  /\ IF off = n \/ Len(buf) = 0
     THEN \* read returns 0: end of input (a zero-length window can only ever read 0 bytes)
          /\ buf' = <<>> /\ eof' = TRUE /\ cur' = 0 /\ UNCHANGED <<off, out>>
     ELSE \E k \in 1 .. (IF Len(buf) < n - off THEN Len(buf) ELSE n - off) :
            /\ buf' = [i \in 1 .. k |-> off + i]              \* k < chunk: resize(k); else the window is full
            /\ off' = off + k /\ cur' = 0 /\ UNCHANGED <<eof, out>>
  /\ UNCHANGED <<n, chunk>>

\* pop_byte with a non-empty window
Pop ==
  /\ cur < Len(buf)
  /\ out' = Append(out, buf[cur + 1]) /\ cur' = cur + 1
  /\ UNCHANGED <<n, chunk, off, buf, eof>>

Next == (~eof /\ Refill) \/ Pop
Spec == Init /\ [][Next]_vars /\ WF_vars(Next)

DeliveredIsSource == out = [i \in 1 .. Len(out) |-> i]
EofOnlyAtEnd == eof => (off = n /\ Len(out) = n)
WindowWithinChunk == Len(buf) <= chunk
\* a window that shrank to nothing before the end would make the reader report end of input early
NeverStarves == (Len(buf) = 0 /\ ~eof) => FALSE
AllDelivered == <>(eof /\ Len(out) = n)
=============================================================================

INIT Init
NEXT Next

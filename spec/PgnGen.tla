-------------------------------- MODULE PgnGen --------------------------------
(* Spec -> implementation: random LEGAL games (moves chosen by TLC from Legal, SAN text by San.tla, so castling *)
(* by both sides, promotions, checks and mates occur as the rules produce them) rendered to database text by    *)
(* Pgn!RenderDb.  The driver only chooses shapes: start FEN, length, tags, comments, result token, tail.        *)
EXTENDS Pgn, Json, IOUtils

Specs == ndJsonDeserialize(IOEnv.SPECS)     \* one collection per line: [games |-> <<[fen, plies, tags, clk, marks, castle, result]>>, tail]

RECURSIVE Play(_, _, _)
PlayStep(p, L, m, k, spec) ==
  << [san |-> San(p, L, m) \o (IF spec.marks /\ k % 5 = 0 THEN "!?" ELSE ""),
      ann |-> IF spec.clk THEN " [%clk 0:0" \o ToString(k % 10) \o ":00] " ELSE "none",
      uci |-> Uci(m)] >> \o Play(Apply(p, m), k - 1, spec)
Play(p, k, spec) ==
  IF k = 0 THEN <<>>
  ELSE LET L == Legal(p)
           C == {m \in L : m.kind = "castle"}     \* games that ask for it castle as soon as they may
       IN IF L = {} THEN <<>>
          ELSE PlayStep(p, L, IF spec.castle /\ C # {} THEN RandomElement(C) ELSE RandomElement(L), k, spec)

RECURSIVE FinalPos(_, _, _)
FinalPos(p, ms, i) == IF i > Len(ms) THEN p
                      ELSE FinalPos(Apply(p, CHOOSE m \in Legal(p) : Uci(m) = ms[i].uci), ms, i + 1)

GameOf(spec) ==
  LET p == PosOfFen(spec.fen)
      ms == Play(p, spec.plies, spec)
  IN [tags |-> spec.tags, moves |-> ms, result |-> spec.result, first |-> p.stm, n0 |-> p.fmn,
      fen |-> spec.fen, final |-> RenderFen(FinalPos(p, ms, 1))]

Out == [i \in 1 .. Len(Specs) |->
          LET gs == [j \in 1 .. Len(Specs[i].games) |-> GameOf(Specs[i].games[j])]
          IN [games |-> gs, tail |-> Specs[i].tail, text |-> RenderDb(gs, Specs[i].tail)]]
ASSUME JsonSerialize(IOEnv.OUT, Out)
VARIABLE x
Init == x = 0
Next == UNCHANGED x
=============================================================================

------------------------------ MODULE SearchTrace ------------------------------
(* C08 / C10 / C11: one step per fixed-depth search, evaluation probe or repetition-counter sweep. *)
EXTENDS SearchRef, Json, IOUtils, TLC

Rec == ndJsonDeserialize(IOEnv.TRACE)
VARIABLES l, prevGo, prevEval, bad, nbad, ntr
vars == <<l, prevGo, prevEval, bad, nbad, ntr>>
Ev == Rec[l]
Prop == IOEnv.PROP

Fails(chks) == SelectSeq(chks, LAMBDA c : ~c[1])
Record(chks) ==
  LET f == Fails(chks)
      ns == [i \in 1 .. Len(f) |-> [c |-> Ev.c, l |-> l, ev |-> Ev.ev, p |-> f[i][2], w |-> f[i][3], x |-> f[i][4]]]
  IN nbad' = nbad + Len(ns) /\ bad' = IF Len(bad) >= 60 THEN bad ELSE bad \o ns
ToS(seq) == {seq[i] : i \in 1 .. Len(seq)}

\* the positions of a game: start, then after every move (all moves are legal by construction; checked)
RECURSIVE Positions(_, _, _)
Positions(p, line, i) ==
  IF i > Len(line) THEN <<p>>
  ELSE LET c == {m \in Legal(p) : Uci(m) = line[i]}
       IN IF c = {} THEN <<p>> ELSE <<p>> \o Positions(Apply(p, CHOOSE m \in c : TRUE), line, i + 1)

ScoreStr(s) == s.kind \o " " \o s.v
AbsInt(x) == IF x < 0 THEN -x ELSE x

(***************************************************************************)
(* Forced mates.  The harness' candidate search hands over a certificate:  *)
(* the attacker's move, and for EVERY legal reply the next certificate.    *)
(* TLC verifies it with its own move generator (every reply must be        *)
(* covered, every line must end in checkmate within n attacker moves);     *)
(* only a verified certificate creates a demand on the engine.             *)
(***************************************************************************)
RECURSIVE VerifyAtt(_, _, _), VerifyDef(_, _, _)
VerifyAtt(p, c, n) ==
  LET cand == {m \in Legal(p) : Uci(m) = c.m}
  IN cand # {} /\ VerifyDef(Apply(p, CHOOSE m \in cand : TRUE), c.r, n)
VerifyDef(q, rs, n) ==
  LET L == Legal(q)
  IN IF L = {} THEN InCheck(q.bd, q.stm)
     ELSE n > 1 /\ \A m \in L : \E i \in 1 .. Len(rs) : rs[i].u = Uci(m) /\ VerifyAtt(Apply(q, m), rs[i].c, n - 1)
\* without a certificate (only when the candidate search claims the engine's move throws the mate away): exhaustive
RECURSIVE BruteAtt(_, _), BruteDef(_, _)
BruteAtt(p, n) == \E m \in Legal(p) : BruteDef(Apply(p, m), n)
BruteDef(q, n) ==
  LET L == Legal(q)
  IN IF L = {} THEN InCheck(q.bd, q.stm) ELSE n > 1 /\ \A m \in L : BruteAtt(Apply(q, m), n - 1)

\* NOTE on evaluation cost: inside an action TLC re-evaluates a LET definition at every reference, but an operator
\* ARGUMENT is evaluated once.  Everything expensive is therefore passed down as an argument.
GoJudge(hist, p, EV, sm, d, plain, rp, got, child, line, lo, hi) ==
  LET v == rp[1]
      deep == Ev.mode = "deeprep"
      mate == Ev.mode = "mate"          \* lo: the certificate of a forced mate in Ev.n verifies; hi: the position after the best move is still a forced mate
      mated == Ev.mode = "mated"        \* lo: whatever the side to move does it is mated within Ev.nd - 1 further moves (certificate verified)
      free == Ev.mode \in {"free", "mate", "mated"}          \* no reference value for this search: only what holds for every search is demanded
      gotv == IF got.kind = "cp" THEN (IF Ch(got.v, 1) = "-" THEN -ParseNat(SubSeq(got.v, 2, Len(got.v))) ELSE ParseNat(got.v)) ELSE 0
      missing == AbsInt(v) > 1200000
      exp == ToUciScore(v)
      isRep == Ev.mode = "rep" /\ Len(child) = 2 /\ RepetitionDraw(hist \o <<child[2]>>)
      c == Ev.contempt
      repOk == got.kind = "cp" /\ got.v \in {ToString(c), ToString(-c)}
      mateN == IF got.kind = "mate" /\ Ch(got.v, 1) # "-" THEN ParseNat(got.v) ELSE 0
      \* a move-less root, or searchmoves none of which is legal (the property is silent on that): nothing to compare
      terminal == Legal(p) = {} \/ (sm # {} /\ \A m \in Legal(p) : Uci(m) \notin sm)
  IN /\ Record(
         << <<Len(hist) = Len(Ev.moves) + 1, Prop, "machinery: the case's move history is not legal", "">>,
            <<Ev.st = "ok", "C07", "no bestmove for go depth " \o ToString(d), "bestmove">>,
            <<Legal(p) = {} => (Ev.best = "none" /\ got.kind = "none"), "C07", "a move-less root must be answered with the null move and no score", "none">>,
            <<terminal \/ Ev.depth_seen = d, Prop, "last scored info has depth " \o ToString(Ev.depth_seen), ToString(d)>>,
            <<~missing \/ isRep \/ deep \/ free, Prop, "a position of the legal depth-" \o ToString(d) \o " tree (with capture resolution) was not visited by the implementation's own tree walk",
              IF missing /\ ~isRep THEN ToString(Keys(p, d) \ EV.d) ELSE "">>,
            <<isRep => repOk, "C10", "line reaching a threefold repetition must be scored as a draw (+- contempt " \o ToString(c) \o "): " \o ScoreStr(got),
              "cp " \o ToString(c)>>,
            <<(mate /\ ~lo) => FALSE, "X-cert", "the candidate search's certificate of a forced mate does not verify against the specification's move generator (no demand made)", "">>,
            <<(mate /\ lo) => (mateN >= 1 /\ mateN <= Ev.n), Prop,
              "the side to move can force mate in " \o ToString(Ev.n) \o " (certificate verified reply by reply: " \o ToString(Ev.cert.m) \o " ...), yet go depth " \o ToString(d)
                \o " on " \o RenderFen(p) \o " reports " \o ScoreStr(got), "mate " \o ToString(Ev.n)>>,
            <<(mated /\ lo) => (got.kind = "mate" /\ Ch(got.v, 1) = "-" /\ ParseNat(SubSeq(got.v, 2, Len(got.v))) >= 1 /\ ParseNat(SubSeq(got.v, 2, Len(got.v))) <= Ev.nd - 1), Prop,
              "the side to move is mated within " \o ToString(Ev.nd - 1) \o " moves whatever it plays (certificate verified reply by reply), yet go depth " \o ToString(d)
                \o " on " \o RenderFen(p) \o " reports " \o ScoreStr(got), "mate -" \o ToString(Ev.nd - 1) \o " or nearer">>,
            <<(mate /\ lo /\ mateN >= 1) => hi, Prop,
              "the move played, " \o Ev.best \o ", does not keep the forced mate in " \o ToString(Ev.n) \o " on " \o RenderFen(p), ToString(Ev.cert.m)>>,
            <<deep => lo, "C10", "machinery: the case is not a forced cycle completing a threefold repetition at ply 4", "">>,
            <<(deep /\ lo) => ((got.kind = "mate" /\ Ch(got.v, 1) # "-") \/ (got.kind = "cp" /\ gotv >= -c)), "C10",
              "the side to move can force a threefold repetition within the searched depth (every reply on the cycle is forced), yet go depth " \o ToString(d) \o
              " scores " \o ScoreStr(got) \o ": the repeating line was not valued as a draw", "at least cp " \o ToString(-c)>>,
            <<(~deep /\ ~free /\ ~isRep /\ ~missing /\ ~terminal) => got = exp, IF Ev.mode \in {"rep", "fifty"} THEN "C10" ELSE Prop,
              "score " \o ScoreStr(got) \o " of go depth " \o ToString(d) \o " on " \o RenderFen(p) \o " differs from the minimax value", ScoreStr(exp)>>,
            <<(~deep /\ ~free /\ ~isRep /\ ~missing /\ ~terminal /\ got = exp) => (IF plain THEN Ev.best \in rp[2] ELSE AttainsAB(EV, p, d, Ev.best, v)), Prop,
              "bestmove " \o Ev.best \o " does not attain the minimax value " \o ScoreStr(exp), IF plain THEN ToString(rp[2]) ELSE "">>,
            <<Len(line) = Len(Ev.pv) + 1 /\ (Ev.pv # <<>> => Ev.pv[1] = Ev.best), Prop, "principal variation is not a legal line starting with the best move: " \o ToString(Ev.pv), "">>,
            <<mateN > 0 => (Len(Ev.pv) = 2 * mateN - 1 /\ Len(line) = Len(Ev.pv) + 1 /\ IsMate(line[Len(line)])), Prop,
              "a reported mate in " \o ToString(mateN) \o " must come with a legal line of " \o ToString(2 * mateN - 1) \o " plies ending in checkmate: " \o ToString(Ev.pv), "">>,
            <<Ev.flipof = 0 \/ (prevGo.fen = RenderFen(Flip(PosOfFen(Ev.fen))) /\ prevGo.score = got), "C11",
              "score on the colour-flipped twin differs: " \o ScoreStr(got) \o " vs " \o ToString(prevGo.score), ToString(prevGo.score)>> >>)
     /\ prevGo' = [fen |-> Ev.fen, score |-> got]
     /\ ntr' = IF mate \/ mated THEN (IF lo THEN ntr \cup {l} ELSE ntr)
               ELSE IF d >= 2 \/ got.kind = "mate" \/ isRep \/ deep \/ (Ev.mode = "fifty" /\ p.hmc >= 90) THEN ntr \cup {l} ELSE ntr

\* cyc = positions along the four cycle moves from the root: both replies of the opponent are the only legal moves, and the
\* position reached has then occurred three times inside the reversible window
ForcedCycle(hist, cyc) ==
  /\ Len(cyc) = 5
  /\ Cardinality(Legal(cyc[2])) = 1 /\ Cardinality(Legal(cyc[4])) = 1
  /\ RepetitionDraw(hist \o SubSeq(cyc, 2, 5))

GoWith(hist, EV) ==
  LET p == hist[Len(hist)]
      sm == ToS(Ev.searchmoves)
      plain == Ev.ref # "ab"
      deep == Ev.mode = "deeprep"
      noref == Ev.mode \in {"deeprep", "free", "mate", "mated"}
      mate == Ev.mode = "mate"
      mated == Ev.mode = "mated"
      after == Positions(p, <<Ev.best>>, 1)
  IN GoJudge(hist, p, EV, sm, Ev.d, plain,
             IF noref THEN <<0, {}>> ELSE IF plain THEN RootPlain(EV, p, Ev.d, sm) ELSE <<RootAB(EV, p, Ev.d, sm), {}>>,
             [kind |-> Ev.score.kind, v |-> Ev.score.v],
             IF Len(Ev.searchmoves) = 1 THEN Positions(p, Ev.searchmoves, 1) ELSE <<p>>,
             Positions(p, Ev.pv, 1),
             IF deep THEN ForcedCycle(hist, Positions(p, Ev.cycle, 1)) ELSE IF mate THEN VerifyAtt(p, Ev.cert, Ev.n)
             ELSE IF mated THEN (Legal(p) # {} /\ VerifyDef(p, Ev.certd, Ev.nd)) ELSE FALSE,
             IF mate /\ Len(after) = 2 THEN ((Ev.has2 /\ VerifyDef(after[2], Ev.cert2, Ev.n)) \/ BruteDef(after[2], Ev.n)) ELSE FALSE)

GoDepth ==
  /\ Ev.ev = "godepth"
  /\ GoWith(Positions(PosOfFen(Ev.fen), Ev.moves, 1), Table(Ev.evals))
  /\ UNCHANGED prevEval

Skipped ==
  /\ Ev.ev = "skipped"
  /\ UNCHANGED <<prevGo, prevEval, bad, nbad, ntr>>

BigMate == 10000000     \* the engine's mate scores are around 2^24
Eval ==
  /\ Ev.ev = "eval"
  /\ LET p == PosOfFen(Ev.fen)
         L == Legal(p)
         mated == L = {} /\ InCheck(p.bd, p.stm)
         stale == L = {} /\ ~InCheck(p.bd, p.stm)
         twin == Ev.pair = 1
         sameRoot == RenderFen4(PosOfFen(prevEval.fen)) = RenderFen4(p)
     IN /\ Record(
            << <<twin => Ev.fen = RenderFen(Flip(PosOfFen(prevEval.fen))), "C11", "machinery: twin is not the colour flip", "">>,
               <<(twin /\ p.hmc < 100) => Ev.ongoing = -prevEval.ongoing, "C11", "static evaluation of the colour-flipped position " \o Ev.fen \o " is " \o ToString(Ev.ongoing),
                 ToString(-prevEval.ongoing)>>,
               <<twin => Ev.terminal = -prevEval.terminal, "C11", "terminal evaluation of the colour-flipped position is " \o ToString(Ev.terminal), ToString(-prevEval.terminal)>>,
               <<mated => (IF p.stm = "w" THEN Ev.terminal < -BigMate ELSE Ev.terminal > BigMate), "C11", "checkmated side to move must get a losing mate score: " \o ToString(Ev.terminal), "">>,
               <<stale => Ev.terminal = 0, "C11", "stalemate must score as a draw: " \o ToString(Ev.terminal), "0">>,
               <<(mated /\ Ev.pair = 2 /\ sameRoot /\ p.fmn > PosOfFen(prevEval.fen).fmn) =>
                   (IF p.stm = "w" THEN Ev.terminal > prevEval.terminal ELSE Ev.terminal < prevEval.terminal), "C11",
                 "a later mate must score better for the mated side than a nearer one: " \o ToString(<<prevEval.terminal, Ev.terminal>>), "">> >>)
        /\ prevEval' = [fen |-> Ev.fen, ongoing |-> Ev.ongoing, terminal |-> Ev.terminal]
        /\ ntr' = ntr \cup {l}
  /\ UNCHANGED prevGo

Bit(n, j) == (n \div (2 ^ j)) % 2 = 1
Reps ==
  /\ Ev.ev = "reps"
  /\ LET len == Ev.len
         start == Ev.base + len
         H(n) == [i \in 0 .. start |-> IF i = start THEN 1 ELSE IF i < Ev.base THEN 0 ELSE IF Bit(n, i - Ev.base) THEN 1 ELSE 1000 + i]
         rows == Ev.rows
         wrong == {i \in 1 .. Len(rows) : rows[i][3] # CountRepetitionsSpec(H(rows[i][1]), start, rows[i][2])}
     IN /\ Record(
            << <<Len(rows) = (2 ^ len) * (Ev.hmax + 1) /\ \A i \in 1 .. Len(rows) : rows[i][1] = (i - 1) \div (Ev.hmax + 1) /\ rows[i][2] = (i - 1) % (Ev.hmax + 1),
                 "C10", "machinery: pattern enumeration incomplete", "">>,
               <<wrong = {}, "C10", "count_repetitions differs from its contract on <<pattern, half-move clock, result>> " \o
                   ToString({rows[i] : i \in wrong}), ToString({CountRepetitionsSpec(H(rows[i][1]), start, rows[i][2]) : i \in wrong})>> >>)
        /\ ntr' = ntr \cup {l}
  /\ UNCHANGED <<prevGo, prevEval>>

(***************************************************************************)
(* The transposition-table decisions of one search (hook H6), in order,    *)
(* against the rules of TTRule.tla (the ones ABTT.tla model-checks).       *)
(* row = <<kind, key, draft, a0, b0, alpha, beta, e_depth, e_value,        *)
(*         e_type, e_mv_value, outcome, best>>                             *)
(***************************************************************************)
TR == INSTANCE TTRule
TypeName(c) == IF c = 0 THEN "exact" ELSE IF c = 1 THEN "lower" ELSE IF c = 2 THEN "upper" ELSE "?"
RetName(c) == IF c = 0 THEN "on" ELSE IF c = 1 THEN "exact" ELSE IF c = 2 THEN "cut" ELSE "?"
\* the engine's mate scores: beyond 2^24 - 2^20 (never stored: they are absolute, a table value must not be)
MateScore(v) == v > 15728640 \/ v < -15728640
ProbeOk(r) ==
  LET pr == TR!Probe("none", TypeName(r[10]), r[8], r[9], r[3], r[4], r[5])
  IN /\ RetName(r[12]) = pr.ret
     /\ r[6] = pr.alpha /\ r[7] = pr.beta
     /\ r[11] = r[9]                   \* the move handed back carries the entry's value
StoreOk(r) == /\ TypeName(r[10]) = TR!StoreType("none", r[13], r[4], r[6], r[7])
              /\ ~MateScore(r[13])
SkipOk(r) == MateScore(r[13])
\* a found entry is the last one stored under its key in this search (the table is emptied when a search starts)
FromLastStore(rows, i) ==
  LET S == {j \in 1 .. i - 1 : rows[j][1] = 2 /\ rows[j][2] = rows[i][2]}
  IN /\ S # {}
     /\ LET j == CHOOSE j \in S : \A k \in S : k <= j
        IN rows[j][3] = rows[i][8] /\ rows[j][13] = rows[i][9] /\ rows[j][10] = rows[i][10]
TtJudge(rows, n) ==
  LET probes == {i \in 1 .. n : rows[i][1] = 1}
      stores == {i \in 1 .. n : rows[i][1] = 2}
      skips == {i \in 1 .. n : rows[i][1] = 3}
      badP == {i \in probes : ~ProbeOk(rows[i])}
      badS == {i \in stores : ~StoreOk(rows[i])}
      badK == {i \in skips : ~SkipOk(rows[i])}
      badL == IF n <= 2000 THEN {i \in probes : ~FromLastStore(rows, i)} ELSE {}
      first(S) == IF S = {} THEN "" ELSE ToString(rows[CHOOSE i \in S : \A j \in S : i <= j])
  IN /\ Record(
         << <<probes \cup stores \cup skips = 1 .. n, "C08", "machinery: unknown kind of table decision", "">>,
            <<badP = {}, "C08", "a found table entry was not used as the design says (usable iff its draft suffices; exact: return it; lower: raise alpha; upper: lower beta; "
                \o "empty window: return it): " \o first(badP), IF badP = {} THEN "" ELSE ToString(TR!Probe("none", TypeName(rows[CHOOSE i \in badP : TRUE][10]), rows[CHOOSE i \in badP : TRUE][8], rows[CHOOSE i \in badP : TRUE][9], rows[CHOOSE i \in badP : TRUE][3], rows[CHOOSE i \in badP : TRUE][4], rows[CHOOSE i \in badP : TRUE][5]))>>,
            <<badS = {}, "C08", "a node's result was stored under the wrong type (upper bound iff it does not exceed the alpha the node was entered with, lower bound iff it reaches beta, "
                \o "else exact; mate scores are not stored): " \o first(badS), "">>,
            <<badK = {}, "C08", "a result that is not a mate score was not stored: " \o first(badK), "">>,
            <<badL = {}, "C08", "a found table entry is not the one last stored under its key in this search: " \o first(badL), "">> >>)
     /\ ntr' = IF stores # {} THEN ntr \cup {l} ELSE ntr
TtLog ==
  /\ Ev.ev = "ttlog"
  /\ TtJudge(Ev.rows, Len(Ev.rows))
  /\ UNCHANGED <<prevGo, prevEval>>

Panic ==
  /\ Ev.ev = "panic"
  /\ Record(<< <<FALSE, Ev.p, "panic during " \o Ev.during \o ": " \o Ev.msg, "no panic">> >>)
  /\ UNCHANGED <<prevGo, prevEval, ntr>>

Next == l <= Len(Rec) /\ l' = l + 1 /\ (GoDepth \/ TtLog \/ Skipped \/ Eval \/ Reps \/ Panic)
Init == /\ l = 1 /\ bad = <<>> /\ nbad = 0 /\ ntr = {}
        /\ prevGo = [fen |-> "", score |-> [kind |-> "none", v |-> "0"]]
        /\ prevEval = [fen |-> "8/8/8/8/8/8/8/8 w - - 0 1", ongoing |-> 0, terminal |-> 0]
Spec == Init /\ [][Next]_vars
Report == (l = Len(Rec) + 1) => JsonSerialize(IOEnv.OUT, [lines |-> Len(Rec), nbad |-> nbad, bad |-> bad, ntr |-> ntr])
Consumed == \/ TLCGet("stats").diameter - 1 = Len(Rec)
            \/ PrintT(<<"NOT CONSUMED", TLCGet("stats").diameter - 1, Len(Rec)>>) /\ FALSE
=============================================================================

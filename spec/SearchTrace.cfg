SPECIFICATION Spec
INVARIANT Report
POSTCONDITION Consumed
CHECK_DEADLOCK FALSE

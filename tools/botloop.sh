#!/bin/bash
# Development tool (not a registered check; no listed property talks about the bot's game loop): model-checks
# spec/BotLoop.tla, the design model of lichess_bot/src/bot.rs around the engine.
#   BotLoop.cfg    : the server never repeats a state      -> all invariants and the liveness property hold
#   BotLoopDup.cfg : the server may repeat a state twice   -> the model shows how the loop fails (documented in
#                    DESIGN.md I.9; informational, never an alarm of a check)
set -u
V=$(cd "$(dirname "$0")/.." && pwd); W="$V/work/botloop"; mkdir -p "$W"
run() { timeout 300 java -XX:+UseSerialGC -Djava.io.tmpdir="$W" -cp /opt/veriftools/tla/tla2tools.jar:/opt/veriftools/tla/CommunityModules-deps.jar \
        tlc2.TLC -workers 4 "$@" -metadir "$W/$$" -cleanup -noGenerateSpecTE "$V/spec/BotLoop.tla" 2>&1; rm -rf "$W/$$"; }
echo "== BotLoop.cfg (no repeated state)"
run -config "$V/spec/BotLoop.cfg" | grep -E "^Error|No error|distinct states found, 0 states left"
echo "== BotLoopDup.cfg (state repeated up to twice), every violated invariant counted"
run -continue -config "$V/spec/BotLoopDup.cfg" | grep -E "^Error: (Invariant|Temporal)|distinct states found, 0 states left" | sort | uniq -c
exit 0

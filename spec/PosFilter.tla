------------------------------ MODULE PosFilter ------------------------------
(* Candidate positions proposed by the driver (no chess judgement there) are classified HERE: well-formed?, *)
(* number of legal moves, number of pseudo-legal moves that are not legal, in check?                        *)
EXTENDS Fen, Json, IOUtils
Roots == ndJsonDeserialize(IOEnv.ROOTS)
Out == [i \in 1 .. Len(Roots) |->
         LET pf == ParseFen(Roots[i].fen)
             p == pf.pos
             wf == pf.ok /\ WellFormed(p)
         IN [fen |-> Roots[i].fen, wf |-> wf,
             nlegal |-> IF wf THEN Cardinality(Legal(p)) ELSE 0,
             nillegal |-> IF wf THEN Cardinality(PseudoLegal(p) \ Legal(p)) ELSE 0,
             check |-> wf /\ InCheck(p.bd, p.stm),
             epill |-> wf /\ \E m \in PseudoLegal(p) \ Legal(p) : m.kind = "ep"]]
ASSUME JsonSerialize(IOEnv.OUT, Out)
VARIABLE x
Init == x = 0
Next == UNCHANGED x
=============================================================================

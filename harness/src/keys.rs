//! Black-box extraction of the Zobrist key table: hashes of probe positions (empty board, one
//! piece, one right, one e.p. square) given as FEN *text*.  No internal table is read.
use inkayaku_board::Bitboard;
use serde_json::{json, Map, Value};

use crate::util::limbs;

fn hashes(fen: &str) -> (u64, u64) {
    let b = Bitboard::from_fen_string(fen).unwrap_or_else(|_| panic!("probe FEN rejected: {}", fen));
    (b.calculate_zobrist_hash(), b.calculate_zobrist_pawn_hash())
}

fn placement_with(piece: char, file: usize, rank: usize) -> String {
    // rank 0 = rank 1 of the board; FEN lists rank 8 first
    let mut rows = Vec::new();
    for r in (0..8).rev() {
        if r == rank {
            let mut s = String::new();
            if file > 0 {
                s.push_str(&file.to_string());
            }
            s.push(piece);
            if file < 7 {
                s.push_str(&(7 - file).to_string());
            }
            rows.push(s);
        } else {
            rows.push("8".to_string());
        }
    }
    rows.join("/")
}

pub fn run(args: &[String]) -> i32 {
    let out_path = &args[0];
    let empty = "8/8/8/8/8/8/8/8";
    let (base, pbase) = hashes(&format!("{} b - - 0 1", empty));
    let (wb, pwb) = hashes(&format!("{} w - - 0 1", empty));
    let pieces = ['P', 'N', 'B', 'R', 'Q', 'K', 'p', 'n', 'b', 'r', 'q', 'k'];
    let mut piece = Vec::new();
    let mut ppiece = Vec::new();
    for p in pieces {
        let mut row = Vec::new();
        let mut prow = Vec::new();
        for sq in 0..64usize {
            let (h, ph) = hashes(&format!("{} b - - 0 1", placement_with(p, sq % 8, sq / 8)));
            row.push(limbs(h ^ base));
            prow.push(limbs(ph ^ pbase));
        }
        piece.push(Value::Array(row));
        ppiece.push(Value::Array(prow));
    }
    let mut right = Map::new();
    let mut pright = Map::new();
    for r in ["K", "Q", "k", "q"] {
        let (h, ph) = hashes(&format!("{} b {} - 0 1", empty, r));
        right.insert(r.to_string(), limbs(h ^ base));
        pright.insert(r.to_string(), limbs(ph ^ pbase));
    }
    // e.p. keys probed on both ranks that can carry a target; they must agree per file (checked by TLC)
    let mut ep3 = Vec::new();
    let mut ep6 = Vec::new();
    let mut pep3 = Vec::new();
    let mut pep6 = Vec::new();
    for f in 0..8u8 {
        let file = (b'a' + f) as char;
        let (h3, ph3) = hashes(&format!("{} b - {}3 0 1", empty, file));
        let (h6, ph6) = hashes(&format!("{} b - {}6 0 1", empty, file));
        ep3.push(limbs(h3 ^ base));
        ep6.push(limbs(h6 ^ base));
        pep3.push(limbs(ph3 ^ pbase));
        pep6.push(limbs(ph6 ^ pbase));
    }
    let kt = json!({
        "base": limbs(base), "pbase": limbs(pbase),
        "side": limbs(wb ^ base), "pside": limbs(pwb ^ pbase),
        "piece": piece, "ppiece": ppiece,
        "right": right, "pright": pright,
        "ep": ep3, "ep6": ep6, "pep": pep3, "pep6": pep6,
    });
    std::fs::write(out_path, serde_json::to_string(&kt).unwrap()).unwrap();
    0
}

"""C04: every cell of the precomputed attack tables (hook H1) is one TLC state of TablesCheck.tla whose invariant
compares it with the ray/step definition in AttackTables.tla.  The space is finite and enumerated completely."""
import glob
import json
import os
import subprocess
import time

from common import (SPEC, IKV, NCPU, Outcome, ToolError, log, pmap, read_ndjson, run_tlc, seed, workdir,
                    write_evidence, write_replay)


def check(tier, replay=None):
    t0 = time.time()
    T = tier == "thorough"
    wd = workdir("C04")
    sl = os.path.join(wd, "sl")
    os.makedirs(sl)
    outcome = Outcome("C04")
    jobs = []
    if replay:
        rp = json.load(open(replay))
        f = os.path.join(wd, "replay.ndjson")
        # regenerate the file the cell came from and re-check it
        jobs_spec = [(rp["mode"], rp["file"])]
    for cmd in (["tables", "sliders", sl], ["tables", "leapers", os.path.join(wd, "leapers.ndjson")], ["tables", "geom", os.path.join(wd, "geom.ndjson")],
                ["tables", "random", os.path.join(wd, "random.ndjson"), str(50000 if T else 4000), str(seed())]):
        r = subprocess.run([IKV] + cmd, stdout=subprocess.PIPE, stderr=subprocess.PIPE, text=True)
        if r.returncode != 0:
            # the dump itself died (e.g. an out-of-range unchecked index aborted the process): that is an observation
            case = {"family": "tables", "mode": cmd[1], "file": cmd[2], "note": {"w": "table dump aborted: " + r.stderr[-300:]}}
            print("VIOLATION property=C04 replay=%s" % write_replay("C04", case))
            write_evidence("C04", tier, "model_checking", {"states": 1, "transitions": 1, "traces_validated_against_impl": 0,
                           "samples": [case], "evaluations": 1, "distinct_nontrivial": 0}, time.time() - t0, 1, [])
            return 1
    for f in sorted(glob.glob(os.path.join(sl, "*.ndjson"))):
        jobs.append(("slider", f))
    jobs.append(("leaper", os.path.join(wd, "leapers.ndjson")))
    jobs.append(("geom", os.path.join(wd, "geom.ndjson")))
    # split the random file so that the JVMs share it
    rows = open(os.path.join(wd, "random.ndjson")).read().splitlines()
    n = NCPU if T else 4
    for i in range(n):
        part = os.path.join(wd, "random_%d.ndjson" % i)
        open(part, "w").write("\n".join(rows[i::n]) + "\n")
        jobs.append(("random", part))
    if replay:
        jobs = [j for j in jobs if os.path.basename(j[1]) == os.path.basename(jobs_spec[0][1])] or jobs

    def one(job):
        mode, f = job
        swd = os.path.join(wd, "tlc_" + os.path.basename(f))
        os.makedirs(swd, exist_ok=True)
        module = "GeomCheck" if mode == "geom" else "TablesCheck"
        info = run_tlc(os.path.join(SPEC, module + ".tla"), os.path.join(SPEC, module + ".cfg"), swd,
                       env={"MODE": mode, "FILE": f}, timeout=1800)
        cells = sum(1 for _ in open(f))
        # PrintT may wrap the tuple over several lines: take the text from each BADCELL marker up to the closing >>
        out = info["out"]
        badcells = []
        pos = out.find('"BADCELL"')
        while pos >= 0:
            end = out.find(">>", pos)
            end2 = out.find("\nError", pos)
            stop = min(x for x in (end2 if end2 >= 0 else len(out), pos + 1500))
            badcells.append(" ".join(out[pos:stop].split()))
            pos = out.find('"BADCELL"', pos + 10)
        if not badcells and "Invariant CellOk is violated" in out:
            badcells.append("Invariant CellOk is violated (cell not printed)")
        if info["rc"] != 0 and not badcells:
            raise ToolError("TablesCheck failed on %s:\n%s" % (f, info["out"][-1500:]))
        return mode, f, cells, badcells, info

    results = pmap(one, jobs)
    # the reduction lemma of the specification (all subsets of the full rays)
    lcfg = os.path.join(SPEC, "TablesLemma.cfg")
    if T:
        lcfg = os.path.join(wd, "TablesLemma_T.cfg")
        open(lcfg, "w").write("INIT Init\nNEXT Next\nINVARIANT Lemma\nCHECK_DEADLOCK FALSE\nCONSTANT LemmaSquares = {%s}\n" % ", ".join(map(str, range(64))))
    linfo = run_tlc(os.path.join(SPEC, "TablesLemma.tla"), lcfg, wd, workers=NCPU, parallel_gc=True, timeout=3000)
    if linfo["rc"] != 0:
        raise ToolError("reduction lemma failed in the specification itself:\n" + linfo["out"][-1500:])
    states = trans = cells_total = 0
    by_mode = {}
    samples = []
    for mode, f, cells, badcells, info in results:
        states += info["distinct"]
        trans += info["generated"]
        cells_total += cells
        by_mode[mode] = by_mode.get(mode, 0) + cells
        for b in badcells[:3]:
            outcome.add({"family": "tables", "mode": mode, "file": os.path.basename(f)}, {"p": "C04", "w": b[:500], "ev": mode, "c": 0}, None)
    for mode in ("slider", "leaper", "random", "geom"):
        f = [j[1] for j in jobs if j[0] == mode]
        if f:
            rows = read_ndjson(f[0])
            samples.append({"mode": mode, "file": os.path.basename(f[0]), "rows": rows[:2] if mode != "slider" else [rows[0], rows[min(5, len(rows) - 1)]]})
    cov = {"states": states, "transitions": trans, "traces_validated_against_impl": len(jobs),
           "evaluations": cells_total, "distinct_nontrivial": by_mode.get("slider", 0) + by_mode.get("leaper", 0) - 128,
           "cells_by_kind": by_mode, "lemma_states": linfo["distinct"],
           "rule": "every (slider kind, square, subset of the implementation's mask) cell, numbered so that TLC verifies the enumeration is complete "
                   "(2^|mask| rows, row n = subset n), every leaper/pawn entry, plus unmasked random 64-bit occupancies; TLC also checks that the "
                   "implementation's mask contains the specification's relevant mask and (TablesLemma) that only relevant squares matter, which together "
                   "reduce all 2^64 occupancies to the enumerated subsets. distinct_nontrivial = enumerated table cells (headers excluded)",
           "samples": samples, "exhaustive": True,
           "checker_cmd": "java ... tlc2.TLC -workers 1 -config spec/TablesCheck.cfg spec/TablesCheck.tla (MODE, FILE in env; one JVM per table file); tlc -config spec/TablesLemma.cfg spec/TablesLemma.tla"}
    rc = outcome.finish()
    write_evidence("C04", tier, "model_checking", cov, time.time() - t0, len(outcome.violations),
                   ["hook H1 returns what the move generator's lookup returns (slider_lookup calls the same get_attacks)",
                    "an index at or beyond the table length is recorded by the harness instead of being dereferenced",
                    "the 64-bit multiply/shift itself is not modelled; every cell reachable through it is compared"])
    return rc

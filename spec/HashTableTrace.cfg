SPECIFICATION Spec
INVARIANT Report
INVARIANT Inv
POSTCONDITION Consumed
CHECK_DEADLOCK FALSE

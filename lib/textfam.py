"""Text-format properties decided by classifier specifications: C12 (FEN), C15 (UCI command grammar), C19 (Lichess
JSON), C17 (PGN reader).  Inputs are rendered by the specification (TLC) and mutated mechanically; every string is
one TLC step that classifies it (must accept with value / must reject / don't care) and compares the observation."""
import json
import os
import random
import time

from common import (SPEC, NCPU, Outcome, ToolError, log, pmap, read_ndjson, run_harness, run_tlc, seed, shard,
                    validate_trace, workdir, write_evidence)
from boardfam import corpus
from findings import matcher_for


def tlc_gen(module, wd, env, tag, extra=()):
    out = os.path.join(wd, tag + "_out.json")
    e = dict(env)
    e["OUT"] = out
    swd = os.path.join(wd, tag + "_tlc")
    os.makedirs(swd, exist_ok=True)
    info = run_tlc(os.path.join(SPEC, module + ".tla"), os.path.join(SPEC, module + ".cfg"), swd, env=e, timeout=1800, extra=list(extra))
    if info["rc"] != 0 or not os.path.exists(out):
        raise ToolError("%s failed:\n%s" % (module, info["out"][-2000:]))
    return json.load(open(out)), info


def run_text_check(prop, tier, family, module, cases, wd, t0, rule, assumptions, level="exploration", extra_cov=None, nshards=None,
                   weight=lambda c: 1, harness_extra=()):
    outcome = Outcome(prop)
    shards = shard(cases, nshards or NCPU, weight)

    def one(i):
        tr = run_harness(family, shards[i], wd, "s%d" % i, prop, extra=harness_extra)
        res, info = validate_trace(module + ".tla", module + ".cfg", tr, wd, "s%d" % i)
        return tr, res, info

    results = pmap(one, list(range(len(shards))))
    by_id = {c["id"]: c for c in cases}
    states = trans = evals = 0
    nt = set()
    bad = set()
    ncls = {}
    samples = []
    for tr, res, info in results:
        states += info["distinct"]
        trans += info["generated"]
        evs = read_ndjson(tr)
        evals += len(evs)
        for i in res.get("ntr", []):
            e = evs[i - 1]
            nt.add(json.dumps(by_id.get(e["c"], {}).get("key", e.get("s", e["c"])), sort_keys=True))
        for k, v in (res.get("ncls") or {}).items():
            ncls[k] = ncls.get(k, 0) + v
        for note in res["bad"]:
            bad.add(note["c"])
            outcome.add(by_id.get(note["c"], {"id": note["c"]}), note, matcher_for(prop))
        if len(samples) < 3 and evs:
            samples.append({k: (v if len(json.dumps(v)) < 400 else json.dumps(v)[:400] + "...") for k, v in evs[len(evs) // 2].items()})
    cov = {"evaluations": evals, "distinct_nontrivial": len(nt), "rule": rule, "samples": samples,
           "states": states, "transitions": trans, "traces_validated_against_impl": len(cases) - len(bad),
           "classified": ncls, "exhaustive": False,
           "checker_cmd": "java ... tlc2.TLC -workers 1 -config spec/%s.cfg spec/%s.tla per trace shard" % (module, module)}
    if extra_cov:
        cov.update(extra_cov)
    rc = outcome.finish()
    write_evidence(prop, tier, level, cov, time.time() - t0, len(outcome.violations), assumptions)
    return rc


# --------------------------------------------------------------------------- C12
FEN_ALPHABET = list("PNBRQKpnbrqk/12345678 90wb-ahxKQ")
CLOCKS = ["0", "1", "7", "99", "100", "4095", "65535", "2147483647", "4294967295", "4294967296", "1000000000000", "1" + "0" * 30,
          "007", "00", "-1", "+5", "1.5", "٣", "１２"]


def mutate(rng, s):
    k = rng.randrange(11)
    if not s:
        return "x"
    i = rng.randrange(len(s))
    if k == 0:
        return s[:i] + s[i + 1:]
    if k == 1:
        return s[:i] + rng.choice(FEN_ALPHABET) + s[i:]
    if k == 2:
        return s[:i] + rng.choice(FEN_ALPHABET) + s[i + 1:]
    f = s.split(" ")
    if k == 3 and len(f) > 1:
        j = rng.randrange(len(f))
        return " ".join(f[:j] + [f[j], f[j]] + f[j + 1:])
    if k == 4 and len(f) > 1:
        j = rng.randrange(len(f))
        return " ".join(f[:j] + f[j + 1:])
    if k == 5 and len(f) > 1:
        a, b = rng.sample(range(len(f)), 2)
        f[a], f[b] = f[b], f[a]
        return " ".join(f)
    ranks = f[0].split("/")
    j = rng.randrange(len(ranks))
    if k == 6:
        ranks[j] = ranks[j].replace("8", "44", 1) if "8" in ranks[j] else ranks[j] + "1"
    elif k == 7:
        ranks[j] = ranks[j][:-1] if len(ranks[j]) > 1 else "7"
    elif k == 8:
        ranks[j] = ranks[j] + rng.choice("Pp1")
    elif k == 9:
        ranks = ranks[:j] + ranks[j + 1:] if rng.random() < 0.5 else ranks[:j] + [ranks[j]] + ranks[j:]
    else:
        return s.replace(" ", "  ", 1) if rng.random() < 0.5 else " " + s
    return " ".join(["/".join(ranks)] + f[1:])


def check_c12(tier, replay=None):
    t0 = time.time()
    T = tier == "thorough"
    wd = workdir("C12")
    rng = random.Random("C12-%d" % seed())
    cases = []

    def add(s, why):
        cases.append({"id": len(cases) + 1, "family": "fen", "s": s, "why": why, "key": s})

    if replay:
        c = json.load(open(replay))
        add(c["s"], "replay")
    else:
        roots = corpus(wd)
        rp = os.path.join(wd, "roots.ndjson")
        with open(rp, "w") as f:
            for r in roots:
                f.write(json.dumps({"fen": r["fen"]}) + "\n")
        gen, _ = tlc_gen("FenGen", wd, {"ROOTS": rp}, "fengen")
        four = sorted({x for lst in gen for x in lst})
        valid = []
        for f4 in (four if T else rng.sample(four, min(len(four), 500))):
            add(f4, "four-field FEN rendered by the specification")
            for _ in range(4 if T else 2):
                s = "%s %s %s" % (f4, rng.choice(CLOCKS[:12]), rng.choice(CLOCKS[1:12]))
                add(s, "six-field FEN rendered by the specification, clock magnitudes up to 10^30")
                valid.append(s)
            add("%s %s %s" % (f4, rng.choice(CLOCKS), rng.choice(CLOCKS)), "clock fields incl. leading zeros, signs, non-ASCII digits")
        for _ in range(40000 if T else 3500):
            add(mutate(rng, rng.choice(valid)), "single-fault mutation of a valid FEN")
        for _ in range(10000 if T else 600):
            k = rng.randrange(4)
            if k == 0:
                s = "".join(rng.choice(FEN_ALPHABET) for _ in range(rng.randrange(0, 80)))
            elif k == 1:
                s = bytes(rng.randrange(256) for _ in range(rng.randrange(0, 60))).decode("utf-8", "replace")
            elif k == 2:
                s = rng.choice(valid) * rng.randrange(2, 12)
            else:
                s = "".join(chr(rng.choice([rng.randrange(32, 127), rng.randrange(0x80, 0x800), rng.randrange(0x4e00, 0x4f00), 0x1F600])) for _ in range(rng.randrange(1, 40)))
            add(s.replace("\x00", "0"), "arbitrary string")
        for s in ["", " ", "startpos", "8/8/8/8/8/8/8/8 w - - 0 1", "8/8/8/8/8/8/8/8 w - -", "rnbqkbnr/pppppppp/8/8/8/8/PPPPPPPP/RNBQKBNR w KQkq - 0 1\n"]:
            add(s, "edge case")
    log("C12: %d strings" % len(cases))
    rule = ("strings = FEN texts rendered by the specification (FenGen.tla: every root of the TLC-checked corpus x every castling-right set its "
            "placement allows x with/without e.p.) in four- and six-field form with clocks from 0 to 10^30, single-fault mutations of those "
            "(delete/insert/replace a character, duplicate/drop/swap a field, rank sums 7/9, adjacent digits, doubled spaces) and arbitrary "
            "strings incl. non-ASCII. Each is one TLC step: FenClass classifies, ParseFen decodes, result compared field by field. "
            "distinct_nontrivial = distinct strings classified must-accept or must-reject (don't-care strings only need 'no panic' and "
            "agreement of the decodings when both sides accept)")
    return run_text_check("C12", tier, "fen", "FenTrace", cases, wd, t0, rule,
                          ["the harness reads the decoded board through the public accessors and copies it to JSON",
                           "don't-care class per DESIGN.md Appendix B.2 (castling letters out of order, e.p. rank, leading zeros, 'startpos', ill-formed positions, clocks of ten or more digits)"])


# --------------------------------------------------------------------------- C15
GO_NUM = ["wtime", "btime", "winc", "binc", "movestogo", "depth", "nodes", "mate", "movetime"]
NUMS = ["0", "1", "2", "10", "300", "60000", "2147483648", "9223372036854775807", "007"]
SQ = [f + r for r in "12345678" for f in "abcdefgh"]


def rand_move(rng):
    return rng.choice(SQ) + rng.choice(SQ) + rng.choice(["", "", "", "q", "r", "b", "n"])


def spaced(rng, toks, messy):
    if not toks:
        return ""
    if not messy:
        return " ".join(toks)
    s = (" " * rng.randrange(3)) + toks[0]
    for t in toks[1:]:
        s += " " * rng.randrange(1, 4) + t
    return s + rng.choice(["", " ", "  ", "\n", "\r\n", " \n"])


def gen_go(rng):
    keys = rng.sample(GO_NUM + ["searchmoves", "ponder", "infinite"], rng.randrange(0, 7))
    toks = ["go"]
    for k in keys:
        toks.append(k)
        if k in GO_NUM:
            toks.append(rng.choice(NUMS))
        elif k == "searchmoves":
            toks += [rand_move(rng) for _ in range(rng.randrange(1, 5))]
    return toks


def gen_line(rng, fens):
    k = rng.randrange(12)
    if k == 0:
        return [rng.choice(["uci", "isready", "ucinewgame", "stop", "ponderhit", "quit"])]
    if k == 1:
        return ["debug", rng.choice(["on", "off"])]
    if k == 2:
        name = [rng.choice(["Hash", "Nalimov", "Path", "Clear", "UCI_Elo", "Style"]) for _ in range(rng.randrange(1, 4))]
        toks = ["setoption", "name"] + name
        if rng.random() < 0.6:
            toks += ["value"] + [rng.choice(["32", "true", "c:\\tb", "Risky", "a", "b"]) for _ in range(rng.randrange(1, 4))]
        return toks
    if k == 3:
        if rng.random() < 0.3:
            return ["register", "later"]
        return ["register", "name"] + [rng.choice(["Stefan", "MK", "x"]) for _ in range(rng.randrange(1, 3))] + ["code"] + [rng.choice(["4359874324", "abc", "7"]) for _ in range(rng.randrange(1, 3))]
    if k in (4, 5, 6):
        toks = ["position"]
        if rng.random() < 0.4:
            toks.append("startpos")
        else:
            toks += ["fen"] + rng.choice(fens).split(" ")
        if rng.random() < 0.7:
            n = rng.choice([0, 1, 2, 5, 40, 300])
            toks += ["moves"] + [rand_move(rng) for _ in range(n)]
        return toks
    return gen_go(rng)


def mutate_tokens(rng, toks):
    toks = list(toks)
    k = rng.randrange(12)
    i = rng.randrange(len(toks))
    if k == 0:
        toks[0] = rng.choice(["UCI", "Go", "xyz", "positon", "go!", "isReady", ""])
    elif k == 1 and len(toks) > 1:
        del toks[i]
    elif k == 2:
        toks.insert(i, rng.choice(["foo", "depth", "moves", "value", "-1", "e2e4", "name", "wtime"]))
    elif k == 3:
        toks[i] = rng.choice(["abc", "1e3", "99999999999999999999999", "-5", "+5", "1.0", "", "٣"])
    elif k == 4:
        toks[i] = rng.choice(["e2e9", "i2e4", "e2e", "e2e4qq", "E2E4", "A1a2", "1234", "e2e4k", "e7e8Q", "é2e4", "0000"])
    elif k == 5 and toks[0] == "go":
        toks += [rng.choice(GO_NUM), rng.choice(NUMS)] if rng.random() < 0.5 else [toks[1]] if len(toks) > 1 else ["depth"]
    elif k == 6:
        toks = toks[:i]
    elif k == 7:
        toks[i] = toks[i].upper()
    elif k == 8:
        toks[i] = toks[i] + "\t" + "x"
    elif k == 9 and "moves" in toks:
        toks.remove("moves")
    elif k == 10:
        toks = toks + toks[1:]
    else:
        a, b = rng.randrange(len(toks)), rng.randrange(len(toks))
        toks[a], toks[b] = toks[b], toks[a]
    return [t for t in toks]


def check_c15(tier, replay=None):
    t0 = time.time()
    T = tier == "thorough"
    wd = workdir("C15")
    rng = random.Random("C15-%d" % seed())
    cases = []

    def add(k, s, why):
        cases.append({"id": len(cases) + 1, "family": "uci", "k": k, "s": s, "why": why, "key": [k, s]})

    if replay:
        c = json.load(open(replay))
        add(c["k"], c["s"], "replay")
    else:
        roots = corpus(wd)
        fens = [r["fen"] for r in roots] + [" ".join(r["fen"].split(" ")[:4]) for r in roots[:40]]
        good = []
        for _ in range(30000 if T else 2500):
            toks = gen_line(rng, fens)
            good.append(toks)
            add("line", spaced(rng, toks, rng.random() < 0.5), "line generated from the grammar")
        for _ in range(30000 if T else 2500):
            add("line", spaced(rng, mutate_tokens(rng, rng.choice(good)), rng.random() < 0.3), "token-level mutation")
        for _ in range(10000 if T else 600):
            k = rng.randrange(3)
            if k == 0:
                s = bytes(rng.randrange(256) for _ in range(rng.randrange(0, 50))).decode("utf-8", "replace").replace("\x00", " ")
            elif k == 1:
                s = " ".join(rng.choice(["go", "position", "fen", "moves", "depth", "e2e4", "startpos", "name", "value", "x" * 200, "9" * 40]) for _ in range(rng.randrange(1, 30)))
            else:
                s = "".join(chr(rng.choice([rng.randrange(32, 127), rng.randrange(0xA1, 0x800), 0x1F600])) for _ in range(rng.randrange(1, 40)))
            add("line", s, "arbitrary string")
        for s in ["", " ", "\n", "go", "go searchmoves", "position", "position fen", "position startpos moves", "setoption", "setoption name", "debug", "register",
                  "register name a", "setoption name x value", "go depth", "go depth 3 depth 4", "go wtime -100", "position startpos e2e4", "go ponder infinite",
                  "position fen startpos", "uci uci"]:
            add("line", s, "edge case")
        # move text: the full 64 x 64 x {none,q,r,b,n,k} space, plus malformed texts
        for f in SQ:
            for t in SQ:
                for p in ["", "q", "r", "b", "n", "k"]:
                    add("move", f + t + p, "move text space")
        for s in ["", "e2", "e2e", "e2e4qq", "e2e4x", "E2E4", "A1a2", "1234", "a0a1", "a9a1", "i1a1", "e2e4 ", " e2e4", "é2e4", "e2e4Q", "h1a1P", "e2-e4", "0000", "e2e4q!", "aaaa", "1111"]:
            add("move", s, "malformed move text")
        cases.append({"id": len(cases) + 1, "family": "uci", "k": "fmt_all", "s": "", "why": "format then parse every move value", "key": "fmt_all"})
    log("C15: %d cases" % len(cases))
    rule = ("lines generated from the UCI grammar (11 commands, go with random parameter subsets/orders/values up to 2^63-1, position startpos|fen with "
            "0..300 moves, setoption/register with multi-word fields, 1-3 spaces, leading/trailing blanks, \\n and \\r\\n), token-level mutations of "
            "those, arbitrary strings; all 64x64x6 move texts plus malformed ones; all 20,480 move values formatted and parsed back. Each is one "
            "TLC step: UciGrammar!ParseCommand classifies the line and computes the command value it spells, which is compared with the "
            "parser's result. distinct_nontrivial = distinct inputs classified must-accept or must-reject")
    return run_text_check("C15", tier, "uci", "UciTrace", cases, wd, t0, rule,
                          ["the harness projects UciCommand to JSON field by field (durations as milliseconds, numbers as decimal strings)",
                           "don't-care class per DESIGN.md Appendix B.3/B.4 (tabs as separators, extra tokens after complete commands, signed numbers, numbers above 2^63-1, fifth move letter k/p/upper case)"],
                          weight=lambda c: 20480 if c["k"] == "fmt_all" else 1 + len(c["s"]) // 50)

SPECIFICATION Spec
CONSTANTS
  W1 = 2
  W2 = 2
  W3 = 2
  VMax = 2
  RootKids = 0
  Iter = FALSE
  Dev = "none"
INVARIANTS Exact TableSound
CHECK_DEADLOCK FALSE

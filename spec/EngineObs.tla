------------------------------ MODULE EngineObs ------------------------------
(***************************************************************************)
(* The observable contract of the UCI engine, as a GUI sees it (C07/C09):  *)
(* a go is answered by exactly one bestmove; the move is legal in the      *)
(* position set by the last position command (one of searchmoves if any of *)
(* them is legal), the null move iff there is no legal move; nothing the   *)
(* engine emits changes the position it was given.                         *)
(* Parameterised by the game (LegalOf), so that the same definition is     *)
(* used (a) as the refinement target of the code-shaped model EngineMC     *)
(* over a toy game and (b) by EngineTrace over real chess.                 *)
(***************************************************************************)
CONSTANTS LegalOf(_), None

\* the answer rule
AnswerOk(pos, sm, mv) ==
  LET U == LegalOf(pos)
      must == U # {} /\ (sm = {} \/ sm \cap U # {})
  IN /\ (must => mv \in U)
     /\ ((must /\ sm # {}) => mv \in sm)
     /\ (U = {} => mv = None)

VARIABLES gpos,     \* position of the last position command
          waiting,  \* a go is pending
          last      \* last answer

Init == waiting = FALSE /\ last = None

\* GUI: [position p] go
GoWithPosition == ~waiting /\ waiting' = TRUE /\ UNCHANGED last   \* gpos' arbitrary
\* GUI: go without position -- the position stays what it was
GoAgain == ~waiting /\ waiting' = TRUE /\ UNCHANGED <<gpos, last>>
\* engine: the one answer; it does not touch the position
Answer == waiting /\ waiting' = FALSE /\ AnswerOk(gpos, {}, last') /\ UNCHANGED gpos
Next == GoWithPosition \/ GoAgain \/ Answer
Spec == Init /\ [][Next]_<<gpos, waiting, last>>
=============================================================================

INIT Init
NEXT Next

-------------------------------- MODULE Draws --------------------------------
(***************************************************************************)
(* Draw rules used by the search (C10, Appendix B.7 of DESIGN.md).         *)
(* A history is a sequence of positions, the last one being the current    *)
(* position; identity is Zobrist!ZKey (placement, side, rights, e.p. file).*)
(***************************************************************************)
EXTENDS Zobrist

\* occurrences of the current position inside the reversible window (the current one included)
Occurrences(hist) ==
  LET n == Len(hist)
      cur == hist[n]
  IN Cardinality({i \in 1 .. n : n - i <= cur.hmc /\ (n - i) % 2 = 0 /\ ZKey(hist[i]) = ZKey(cur)})
RepetitionDraw(hist) == Occurrences(hist) >= 3

\* only once 100 plies have passed without capture or pawn move, and only for a position that is not terminal
FiftyMoveDraw(pos) == pos.hmc >= 100 /\ Legal(pos) # {}

(***************************************************************************)
(* The contract of the repetition counter over ABSTRACT hash histories:    *)
(* h is a function 0..start -> values, the result is the number of entries *)
(* equal to h[start] at distances 4, 6, 8, ... not beyond the half-move    *)
(* clock, plus one for the current entry, capped at 3.                     *)
(***************************************************************************)
CountRepetitionsSpec(h, start, hmc) ==
  IF start < 4 THEN 0
  ELSE LET lo == IF start - hmc > 0 THEN start - hmc ELSE 0
           S == {i \in lo .. start - 4 : (start - i) % 2 = 0 /\ h[i] = h[start]}
       IN IF 1 + Cardinality(S) >= 3 THEN 3 ELSE 1 + Cardinality(S)
=============================================================================

----------------------------- MODULE BoardTrace -----------------------------
(***************************************************************************)
(* The board OBJECT as a state machine (one action per public call of      *)
(* inkayaku_board::Bitboard) and, at the same time, its trace validator:   *)
(* every line of the trace recorded from the real code is one step; the    *)
(* complete oracle is evaluated at every step.  The trace is deterministic *)
(* (arguments and results are logged), so there is exactly one successor   *)
(* per line.  A mismatch does not stop validation: it is recorded in `bad` *)
(* together with the expected value, the specification re-synchronises on  *)
(* the observed snapshot, and the rest of the trace is still checked.      *)
(***************************************************************************)
EXTENDS San, Zobrist, Json, IOUtils, SequencesExt

Rec == ndJsonDeserialize(IOEnv.TRACE)
KT == JsonDeserialize(IOEnv.KEYS)

VARIABLES
  l,       \* next line of the trace
  pos,     \* the position the specification holds
  lg,      \* Legal(pos), computed once per position
  stack,   \* frames [pos, lg] for every not-yet-unmade make
  oh,      \* <<hash, pawn hash>> of the last observed snapshot
  bad,     \* recorded mismatches (first 60)
  nbad,    \* number of mismatches
  ntr,     \* indices of events that are non-trivial for their property (see NonTrivial*, per event kind)
  sct      \* cache: SAN cores of the legal moves of one position (computed at the first SAN lookup there)
vars == <<l, pos, lg, stack, oh, bad, nbad, ntr, sct>>

Ev == Rec[l]
ToS(seq) == {seq[i] : i \in 1 .. Len(seq)}
NoDup(seq) == Cardinality(ToS(seq)) = Len(seq)

\* a check is <<holds, property, what, expected>>
Fails(chks) == SelectSeq(chks, LAMBDA c : ~c[1])
Notes(chks) == LET f == Fails(chks)
               IN [i \in 1 .. Len(f) |-> [c |-> Ev.c, l |-> l, ev |-> Ev.ev, p |-> f[i][2], w |-> f[i][3], x |-> f[i][4]]]
Record(chks) ==
  LET ns == Notes(chks)
  IN /\ nbad' = nbad + Len(ns)
     /\ bad' = IF Len(bad) >= 60 THEN bad ELSE bad \o ns

OccOf(p, i) == {SqName[s] : s \in {t \in Squares : p.bd[t] = i}}
\* (inside an action TLC re-evaluates a LET definition at every reference but an operator argument only once:
\*  rendered FEN and hashes are therefore computed once and passed down as arguments)
\* ply number of the game as the engine's repetition history indexes it (beyond the listed properties: X-plyclock)
PlyClock(p) == (2 * (p.fmn - 1) + (IF p.stm = "b" THEN 1 ELSE 0)) % 65536
SnapChecksX(p, snap, prop, fen, h, ph) ==
  << <<snap.fen = fen, prop, "fen", fen>>,
     <<p.fmn < 1 \/ p.fmn > 1000000000 \/ snap.ply = PlyClock(p), "X-plyclock", "ply_clock", ToString(PlyClock(p))>>,
     <<\A i \in 1 .. 12 : ToS(snap.occ[i]) = OccOf(p, i), prop, "occupancy words", fen>>,
     <<snap.h = h, "C06", "hash differs from XOR of the keys of " \o prop \o " position", ToString(h)>>,
     <<snap.ph = ph, "C06", "pawn hash differs from XOR of the pawn keys", ToString(ph)>> >>
SnapChecks(p, snap, prop) == SnapChecksX(p, snap, prop, RenderFen(p), HashOf(p, KT), PawnHashOf(p, KT))

\* after a mismatch continue from what the implementation holds (if readable)
ResyncX(p, snap, fen) == IF snap.fen = fen THEN p
                         ELSE IF ParseFen(snap.fen).ok THEN PosOfFen(snap.fen) ELSE p
Resync(p, snap) == ResyncX(p, snap, RenderFen(p))

NonTrivial(p, L) ==
  \/ InCheck(p.bd, p.stm) \/ p.cr # {} \/ p.ep # -1 \/ L = {}
  \/ \E s \in Squares : (p.bd[s] = WP /\ RankOf(s) = 6) \/ (p.bd[s] = BP /\ RankOf(s) = 1)

UciSet(S) == {Uci(m) : m \in S}

------------------------------------------------------------------------------
Load ==
  /\ Ev.ev = "load"
  /\ LET pf == ParseFen(Ev.fen)
         p == pf.pos
     IN /\ pos' = p /\ lg' = Legal(p) /\ stack' = <<>>
        /\ IF Ev.st = "ok"
           THEN /\ Record(SnapChecks(p, Ev.snap, "C12"))
                /\ oh' = <<Ev.snap.h, Ev.snap.ph>>
           ELSE /\ Record(<< <<FALSE, "C12", "load of a well-formed FEN: " \o Ev.st, "ok">> >>)
                /\ oh' = oh
        /\ UNCHANGED ntr

\* continue from position np (the argument is evaluated once)
SetPos(np) == pos' = np /\ lg' = IF np = pos THEN lg ELSE Legal(np)

Gen ==
  /\ Ev.ev = "gen"
  /\ LET exp == UciSet(lg)
         expnq == UciSet({m \in lg : IsCapture(pos, m) \/ m.promo # 0})
     IN /\ Record(
             << <<ToS(Ev.legal) = exp /\ NoDup(Ev.legal), "C01", "generate_legal_moves", ToString(exp)>>,
                <<ToS(Ev.pf) = exp /\ NoDup(Ev.pf), "C01", "pseudo-legal + make/is_valid filter", ToString(exp)>>,
                <<ToS(Ev.nq) = expnq /\ NoDup(Ev.nq), "C01", "non-quiescent generator + filter", ToString(expnq)>>,
                <<Ev.chk = <<InCheck(pos.bd, "w"), InCheck(pos.bd, "b"), InCheck(pos.bd, pos.stm)>>, "C05",
                  "is_in_check(white), is_in_check(black), is_current_in_check",
                  ToString(<<InCheck(pos.bd, "w"), InCheck(pos.bd, "b"), InCheck(pos.bd, pos.stm)>>)>>,
                <<Ev.valid = IsValid(pos), "C05", "is_valid", ToString(IsValid(pos))>>,
                <<Ev.anylegal = (lg # {}), "C05", "is_any_move_legal: a position has no legal move exactly when it is checkmate or stalemate", ToString(lg # {})>>,
                <<(Ev.legal = <<>>) = (lg = {}), "C05", "generate_legal_moves is empty exactly when the position is checkmate or stalemate", ToString(lg = {})>> >>
             \o SnapChecks(pos, Ev.snap, "C03"))
        /\ ntr' = IF NonTrivial(pos, lg) THEN ntr \cup {l} ELSE ntr
        /\ SetPos(Resync(pos, Ev.snap))
        /\ oh' = <<Ev.snap.h, Ev.snap.ph>>
        /\ UNCHANGED stack

\* the check and validity queries alone
Chk ==
  /\ Ev.ev = "chk"
  /\ Record(
       << <<Ev.chk = <<InCheck(pos.bd, "w"), InCheck(pos.bd, "b"), InCheck(pos.bd, pos.stm)>>, "C05",
            "is_in_check(white), is_in_check(black), is_current_in_check",
            ToString(<<InCheck(pos.bd, "w"), InCheck(pos.bd, "b"), InCheck(pos.bd, pos.stm)>>)>>,
          <<Ev.valid = IsValid(pos), "C05", "is_valid", ToString(IsValid(pos))>> >>
       \o SnapChecks(pos, Ev.snap, "C03"))
  /\ ntr' = IF InCheck(pos.bd, pos.stm) THEN ntr \cup {l} ELSE ntr
  /\ UNCHANGED <<pos, lg, stack, oh>>

KindChar == <<"p", "n", "b", "r", "q", "k">>
\* the move record's public description (beyond the listed properties: X-move)
MoveDesc(m) ==
  LET cap == IF m.kind = "ep" THEN 1 ELSE KindOf(pos.bd[m.to])
  IN [moved |-> KindChar[KindOf(pos.bd[m.from])], captured |-> IF cap = 0 THEN "-" ELSE KindChar[cap],
      promo |-> IF m.promo = 0 THEN "-" ELSE KindChar[m.promo], from |-> SqName[m.from], to |-> SqName[m.to],
      castle |-> m.kind = "castle", ep |-> m.kind = "ep", attack |-> cap # 0, reset |-> cap # 0 \/ KindOf(pos.bd[m.from]) = 1]
MakeJudge(cand, known, np, rp) ==
  /\ Record(
       (IF cand # {} THEN << <<Ev.mv = MoveDesc(CHOOSE x \in cand : TRUE), "X-move", "move record " \o ToString(Ev.mv), ToString(MoveDesc(CHOOSE x \in cand : TRUE))>> >> ELSE <<>>) \o
       (IF known THEN SnapChecks(np, Ev.snap, "C02") ELSE <<>>) \o
       << <<Ev.valid = IsValid(rp), "C05", "is_valid after make", ToString(IsValid(rp))>>,
          <<Ev.chk = <<InCheck(rp.bd, "w"), InCheck(rp.bd, "b"), InCheck(rp.bd, rp.stm)>>, "C05", "check queries after make",
            ToString(<<InCheck(rp.bd, "w"), InCheck(rp.bd, "b"), InCheck(rp.bd, rp.stm)>>)>>,
          <<Ev.valid = (cand # {}) \/ ~known, "C01", "move passes the validity filter iff legal", ToString(cand # {})>>,
          <<Xor64(oh[1], Ev.d) = Ev.snap.h, "C06", "hash before XOR zobrist_xor(move) = hash after", ToString(Xor64(oh[1], Ev.d))>>,
          <<Xor64(oh[2], Ev.pd) = Ev.snap.ph, "C06", "pawn hash before XOR delta = pawn hash after", ToString(Xor64(oh[2], Ev.pd))>> >>)
  /\ stack' = Append(stack, [pos |-> pos, lg |-> lg])
  /\ pos' = rp
  /\ lg' = IF Ev.valid THEN Legal(rp) ELSE {}
  /\ oh' = <<Ev.snap.h, Ev.snap.ph>>
  /\ UNCHANGED ntr
MakeApply(cand, known, np) == MakeJudge(cand, known, np, Resync(np, Ev.snap))
MakeWith(cand, pcand) ==
  MakeApply(cand, pcand # {}, IF pcand # {} THEN Apply(pos, CHOOSE x \in pcand : TRUE) ELSE PosOfFen(Ev.snap.fen))
MakeCand(cand) == MakeWith(cand, IF cand # {} THEN cand ELSE {m \in PseudoLegal(pos) : Uci(m) = Ev.uci})
Make ==
  /\ Ev.ev = "make"
  /\ MakeCand({m \in lg : Uci(m) = Ev.uci})

UnmakeTo(top, rp) == pos' = rp /\ lg' = IF rp = top.pos THEN top.lg ELSE Legal(rp)
Unmake ==
  /\ Ev.ev = "unmake"
  /\ IF stack = <<>>
     THEN /\ Record(<< <<FALSE, "C03", "unmake without make in trace", "">> >>)
          /\ UNCHANGED <<pos, lg, stack, oh, ntr>>
     ELSE /\ Record(
               << <<Ev.chk = <<InCheck(stack[Len(stack)].pos.bd, "w"), InCheck(stack[Len(stack)].pos.bd, "b"),
                               InCheck(stack[Len(stack)].pos.bd, stack[Len(stack)].pos.stm)>>, "C05",
                    "check queries on the position restored by unmake", "the restored position's own status">> >>
               \o SnapChecks(stack[Len(stack)].pos, Ev.snap, "C03"))
          /\ UnmakeTo(stack[Len(stack)], Resync(stack[Len(stack)].pos, Ev.snap))
          /\ stack' = SubSeq(stack, 1, Len(stack) - 1)
          /\ oh' = <<Ev.snap.h, Ev.snap.ph>>
          /\ UNCHANGED ntr

\* a panic / abnormal exit observed by the harness: never allowed
Panic ==
  /\ Ev.ev = "panic"
  /\ Record(<< <<FALSE, Ev.p, "panic during " \o Ev.during \o ": " \o Ev.msg, "no panic">> >>)
  /\ UNCHANGED <<pos, lg, stack, oh, ntr>>


------------------------------------------------------------------------------
(* Text-level calls: UCI strings, SAN, perft.  None of the read-only ones may change the position. *)
WS == {" ", "\t", "\n", "\r"}
RECURSIVE TrimL(_)
TrimL(s) == IF Len(s) > 0 /\ Ch(s, 1) \in WS THEN TrimL(SubSeq(s, 2, Len(s))) ELSE s
RECURSIVE TrimR(_)
TrimR(s) == IF Len(s) > 0 /\ Ch(s, Len(s)) \in WS THEN TrimR(SubSeq(s, 1, Len(s) - 1)) ELSE s
Trim(s) == TrimR(TrimL(s))

MoveOfUci(L, u) == CHOOSE m \in L : Uci(m) = u
Denotes(L, s) == \E m \in L : Uci(m) = Trim(s)

\* state unchanged by a read-only call (C13 for rejected input, C03 for internal make/unmake)
Unchanged(nontrivial) ==
  /\ SetPos(Resync(pos, Ev.snap))
  /\ oh' = <<Ev.snap.h, Ev.snap.ph>>
  /\ ntr' = IF nontrivial THEN ntr \cup {l} ELSE ntr
  /\ UNCHANGED stack

FindUci ==
  /\ Ev.ev = "find_uci"
  /\ Record(
       << <<(Ev.st = "ok") = Denotes(lg, Ev.s), "C13", "find_uci accepts exactly the legal moves", ToString(Denotes(lg, Ev.s))>>,
          <<Ev.st = "ok" => Ev.mv = Trim(Ev.s), "C13", "find_uci returns the move it was given", Trim(Ev.s)>> >>
       \o SnapChecks(pos, Ev.snap, "C13"))
  /\ Unchanged(~Denotes(lg, Ev.s))

UciToPgn ==
  /\ Ev.ev = "uci_to_pgn"
  /\ LET d == Denotes(lg, Ev.s)
         exp == IF d THEN San(pos, lg, MoveOfUci(lg, Trim(Ev.s))) ELSE ""
     IN Record(
       << <<(Ev.st = "ok") = d, "C13", "uci_to_pgn accepts exactly the legal moves", ToString(d)>>,
          <<(Ev.st = "ok" /\ d) => Ev.san = exp, "C14", "SAN text of " \o Ev.s, exp>> >>
       \o SnapChecks(pos, Ev.snap, "C13"))
  /\ Unchanged(~Denotes(lg, Ev.s))

\* SanClass with the per-position table of SAN cores taken from the cache
PgnToBb ==
  /\ Ev.ev = "pgn_to_bb"
  /\ LET tbl == IF sct.valid /\ sct.pos = pos THEN sct.t ELSE {<<m, SanCore(pos, lg, m)>> : m \in lg}
         core == CoreOf(Ev.s)
         suf == SuffixOf(Ev.s)
         exact == {e[1] : e \in {x \in tbl : x[2] = core}}
         loose == {m \in lg : core \in LooseForms(pos, m)}
         cl == IF Cardinality(exact) = 1
               THEN LET m == CHOOSE x \in exact : TRUE
                    IN IF suf = "" \/ suf = CheckSuffix(pos, m) THEN <<"accept", m>> ELSE <<"dontcare", exact>>
               ELSE IF loose = {} THEN <<"reject", {}>> ELSE <<"dontcare", loose>>
     IN /\ Record(
            << <<cl[1] = "accept" => (Ev.st = "ok" /\ Ev.mv = Uci(cl[2])), "C14", "standard SAN must parse to its move: " \o Ev.s,
                 IF cl[1] = "accept" THEN Uci(cl[2]) ELSE "">>,
               <<cl[1] = "reject" => Ev.st = "err", "C14", "string denoting no legal move must be rejected: " \o Ev.s, "err">>,
               <<(cl[1] = "dontcare" /\ Ev.st = "ok") => Ev.mv \in UciSet(cl[2]), "C14", "lenient reading must still be a move the string can denote: " \o Ev.s,
                 IF cl[1] = "dontcare" THEN ToString(UciSet(cl[2])) ELSE "">> >>
            \o SnapChecks(pos, Ev.snap, "C13"))
        /\ sct' = [valid |-> TRUE, pos |-> pos, t |-> tbl]
        /\ Unchanged(cl[1] # "dontcare")

\* a position is non-trivial for SAN if some legal move needs a disambiguator, a suffix, a promotion or castling
SanNonTrivial(exp) ==
  \E e \in exp :
    LET t == e[2]
        c == CoreOf(t)
    IN \/ SuffixOf(t) # "" \/ Ch(c, 1) = "O"
       \/ \E i \in 1 .. Len(c) : Ch(c, i) = "="
       \/ Ch(c, 1) \in {"N", "B", "R", "Q", "K"} /\ Len(c) > (IF \E i \in 1 .. Len(c) : Ch(c, i) = "x" THEN 4 ELSE 3)

SanAll ==
  /\ Ev.ev = "san_all"
  /\ LET rows == Ev.rows
         exp == {<<Uci(m), San(pos, lg, m)>> : m \in lg}
         got == {<<rows[i][1], rows[i][2]>> : i \in 1 .. Len(rows)}
         wrong == got \ exp
     IN Record(
       << <<got = exp, "C14", "SAN of every legal move; wrong: " \o ToString(wrong), ToString({e \in exp : \E g \in wrong : g[1] = e[1]})>>,
          <<\A i \in 1 .. Len(rows) : rows[i][3] = rows[i][1], "C14", "pgn_to_bb(uci_to_pgn(m)) = m",
            ToString({rows[i] : i \in {j \in 1 .. Len(rows) : rows[j][3] # rows[j][1]}})>> >>
       \o SnapChecks(pos, Ev.snap, "C03"))
  /\ Unchanged(SanNonTrivial({<<Uci(m), San(pos, lg, m)>> : m \in lg}))

MakeUci ==
  /\ Ev.ev = "make_uci"
  /\ LET d == Denotes(lg, Ev.s)
         np == IF d THEN Apply(pos, MoveOfUci(lg, Trim(Ev.s))) ELSE pos
         rp == Resync(np, Ev.snap)
     IN /\ Record(
             << <<(Ev.st = "ok") = d, "C13", "make_uci applies exactly the legal moves", ToString(d)>>,
                \* playing a legal move by its text is the usual way of playing it: the successor is also C02's business
                <<~d \/ Ev.snap.fen = RenderFen(np), "C02", "successor position after playing the legal move " \o Ev.s \o " by its text", RenderFen(np)>> >>
             \o SnapChecks(np, Ev.snap, "C13"))
        /\ pos' = rp /\ lg' = IF rp = pos THEN lg ELSE Legal(rp)
        /\ stack' = <<>>
        /\ oh' = <<Ev.snap.h, Ev.snap.ph>>
        /\ ntr' = IF ~d THEN ntr \cup {l} ELSE ntr

\* all-or-nothing: fold the list; the first undenoted string voids everything
RECURSIVE PlayAll(_, _, _)
PlayAll(p, list, i) ==
  IF i > Len(list) THEN [ok |-> TRUE, pos |-> p]
  ELSE LET L == Legal(p)
       IN IF Denotes(L, list[i]) THEN PlayAll(Apply(p, MoveOfUci(L, Trim(list[i]))), list, i + 1)
          ELSE [ok |-> FALSE, pos |-> p]

MakeAllUci ==
  /\ Ev.ev = "make_all_uci"
  /\ LET r == PlayAll(pos, Ev.list, 1)
         np == IF r.ok THEN r.pos ELSE pos
         rp == Resync(np, Ev.snap)
     IN /\ Record(
             << <<(Ev.st = "ok") = r.ok, "C13", "make_all_uci succeeds iff every move is legal in turn", ToString(r.ok)>> >>
             \o SnapChecks(np, Ev.snap, "C13"))
        /\ pos' = rp /\ lg' = IF rp = pos THEN lg ELSE Legal(rp)
        /\ stack' = <<>>
        /\ oh' = <<Ev.snap.h, Ev.snap.ph>>
        /\ ntr' = IF ~r.ok THEN ntr \cup {l} ELSE ntr

UciBatch ==
  /\ Ev.ev = "uci_batch"
  /\ Record(
       << <<ToS(Ev.ok) = UciSet(lg), "C13", "of all 64x64x6 move strings exactly the legal ones are accepted",
            ToString((ToS(Ev.ok) \ UciSet(lg)) \cup (UciSet(lg) \ ToS(Ev.ok)))>>,
          <<Ev.changed = <<>>, "C13", "a find_uci call changed the position", "<<>>">> >>
       \o SnapChecks(pos, Ev.snap, "C13"))
  /\ Unchanged(TRUE)

Perft ==
  /\ Ev.ev = "perft"
  /\ LET rows == Ev.rows
         exp == {<<Uci(m), ToString(PerftCount(Apply(pos, m), Ev.depth - 1))>> : m \in lg}
         got == {<<rows[i][1], rows[i][2]>> : i \in 1 .. Len(rows)}
     IN Record(
       << <<got = exp /\ Len(rows) = Cardinality(exp), "C01", "perft per root move", ToString(exp \ got)>> >>
       \o SnapChecks(pos, Ev.snap, "C03"))
  /\ Unchanged(FALSE)

MakeMissing ==
  /\ Ev.ev = "make_missing"
  /\ Record(<< <<\A m \in lg : Uci(m) # Ev.uci, "C01", "legal move not offered by the generator", Ev.uci>> >>)
  /\ UNCHANGED <<pos, lg, stack, oh, ntr>>

\* end of a series of bare makes (every emitted move made once on a fresh board): every legal move was among them
BareDone ==
  /\ Ev.ev = "bare_done"
  /\ Record(<< <<UciSet(lg) \subseteq ToS(Ev.made), "C02", "legal moves that the generator's move records do not spell (nothing to make)",
                ToString(UciSet(lg) \ ToS(Ev.made))>> >>)
  /\ UNCHANGED <<pos, lg, stack, oh, ntr>>

TextEvents == BareDone \/ FindUci \/ UciToPgn \/ SanAll \/ MakeUci \/ MakeAllUci \/ UciBatch \/ Perft \/ MakeMissing

Next ==
  /\ l <= Len(Rec)
  /\ l' = l + 1
  /\ \/ (Load \/ Gen \/ Chk \/ Make \/ Unmake \/ Panic \/ TextEvents) /\ UNCHANGED sct
     \/ PgnToBb

Init ==
  /\ l = 1 /\ pos = NoPos /\ lg = {} /\ stack = <<>> /\ oh = <<Zero64, Zero64>>
  /\ bad = <<>> /\ nbad = 0 /\ ntr = {} /\ sct = [valid |-> FALSE, pos |-> NoPos, t |-> {}]

Spec == Init /\ [][Next]_vars

\* evaluated in every state; in the final one it writes what was found (proper JSON via the Json module)
Report ==
  (l = Len(Rec) + 1) =>
     JsonSerialize(IOEnv.OUT, [lines |-> Len(Rec), nbad |-> nbad, bad |-> bad, ntr |-> ntr])

\* acceptance of the run itself: the whole trace was consumed
Consumed ==
  \/ TLCGet("stats").diameter - 1 = Len(Rec)
  \/ PrintT(<<"NOT CONSUMED", TLCGet("stats").diameter - 1, Len(Rec)>>) /\ FALSE
=============================================================================

-------------------------------- MODULE San --------------------------------
(***************************************************************************)
(* Standard algebraic notation (Appendix B.6 of DESIGN.md).                *)
(* San(pos, L, m): the standard SAN text of legal move m (L = Legal(pos)). *)
(* SanClass(pos, L, str): three-valued classification of a string for the *)
(* SAN parser: <<"accept", m>>, <<"reject">> or <<"dontcare", S>>.         *)
(***************************************************************************)
EXTENDS Fen

KindLetter == <<"", "N", "B", "R", "Q", "K">>

CheckSuffix(pos, m) ==
  LET np == Apply(pos, m)
  IN IF InCheck(np.bd, np.stm) THEN (IF Legal(np) = {} THEN "#" ELSE "+") ELSE ""

\* rivals: other legal moves of the same piece kind to the same target
Rivals(pos, L, m) ==
  {o \in L : o.from # m.from /\ o.to = m.to /\ KindOf(pos.bd[o.from]) = KindOf(pos.bd[m.from])}

MinimalDisambiguation(pos, L, m) ==
  LET R == Rivals(pos, L, m)
  IN IF R = {} THEN ""
     ELSE IF \A o \in R : FileOf(o.from) # FileOf(m.from) THEN FileNames[FileOf(m.from) + 1]
     ELSE IF \A o \in R : RankOf(o.from) # RankOf(m.from) THEN RankNames[RankOf(m.from) + 1]
     ELSE SqName[m.from]

\* SAN without check suffix, with the given disambiguation string and capture mark
Core(pos, m, dis, x) ==
  LET k == KindOf(pos.bd[m.from])
  IN IF m.kind = "castle" THEN (IF FileOf(m.to) = 6 THEN "O-O" ELSE "O-O-O")
     ELSE IF k = 1
          THEN (IF IsCapture(pos, m) THEN FileNames[FileOf(m.from) + 1] \o x ELSE "") \o SqName[m.to]
               \o (IF m.promo # 0 THEN "=" \o KindLetter[m.promo] ELSE "")
          ELSE KindLetter[k] \o dis \o (IF IsCapture(pos, m) THEN x ELSE "") \o SqName[m.to]

SanCore(pos, L, m) == Core(pos, m, MinimalDisambiguation(pos, L, m), "x")
San(pos, L, m) == SanCore(pos, L, m) \o CheckSuffix(pos, m)

\* every spelling a lenient reader might accept for m: any disambiguation level, capture mark optional; for pawns the
\* source file may be given or left out whether or not the move captures ("bb3", "g8=N" for hxg8=N)
LooseForms(pos, m) ==
  IF KindOf(pos.bd[m.from]) = 1 /\ m.kind # "castle"
  THEN {f \o x \o SqName[m.to] \o (IF m.promo # 0 THEN "=" \o KindLetter[m.promo] ELSE "") :
          f \in {"", FileNames[FileOf(m.from) + 1]}, x \in {"x", ""}}
  ELSE {Core(pos, m, d, x) : d \in {"", FileNames[FileOf(m.from) + 1], RankNames[RankOf(m.from) + 1], SqName[m.from]},
                            x \in {"x", ""}}

\* strip trailing !/? marks, then one + or #
RECURSIVE StripMarks(_)
StripMarks(s) == IF Len(s) > 0 /\ Ch(s, Len(s)) \in {"!", "?"} THEN StripMarks(SubSeq(s, 1, Len(s) - 1)) ELSE s
SuffixOf(s) == LET t == StripMarks(s) IN IF Len(t) > 0 /\ Ch(t, Len(t)) \in {"+", "#"} THEN Ch(t, Len(t)) ELSE ""
CoreOf(s) == LET t == StripMarks(s) IN IF SuffixOf(s) # "" THEN SubSeq(t, 1, Len(t) - 1) ELSE t

SanClass(pos, L, str) ==
  LET core == CoreOf(str)
      suf == SuffixOf(str)
      exact == {m \in L : SanCore(pos, L, m) = core}
      loose == {m \in L : core \in LooseForms(pos, m)}
  IN IF Cardinality(exact) = 1
     THEN LET m == CHOOSE x \in exact : TRUE
          IN IF suf = "" \/ suf = CheckSuffix(pos, m) THEN <<"accept", m>> ELSE <<"dontcare", exact>>
     ELSE IF loose = {} THEN <<"reject", {}>> ELSE <<"dontcare", loose>>
=============================================================================

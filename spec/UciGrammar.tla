----------------------------- MODULE UciGrammar -----------------------------
(***************************************************************************)
(* The GUI -> engine command grammar of UCI (Appendix B.4 of DESIGN.md) as *)
(* a recogniser: ParseCommand(line) = <<class, value>> with class          *)
(* "accept" (value = the command the line spells), "reject" (the line must *)
(* yield a parse error) or "dontcare" (the property is silent).            *)
(* Command values are records shaped like the harness's projection of      *)
(* inkayaku_uci::UciCommand; numbers are canonical decimal strings.        *)
(***************************************************************************)
EXTENDS UciOut

WSEnd == {" ", "\t", "\n", "\r"}
RECURSIVE TrimL(_)
TrimL(s) == IF Len(s) > 0 /\ Ch(s, 1) \in WSEnd THEN TrimL(SubSeq(s, 2, Len(s))) ELSE s
RECURSIVE TrimR(_)
TrimR(s) == IF Len(s) > 0 /\ Ch(s, Len(s)) \in WSEnd THEN TrimR(SubSeq(s, 1, Len(s) - 1)) ELSE s
\* tokens: separated by one or more spaces; leading/trailing blanks, tabs and line ends are ignored
CmdTokens(line) == Tokens(TrimR(TrimL(line)))

HasTabInside(line) == LET t == TrimR(TrimL(line)) IN \E i \in 1 .. Len(t) : Ch(t, i) \in {"\t", "\n", "\r"}

RECURSIVE JoinFrom(_, _, _)
JoinFrom(t, i, j) == IF i > j THEN "" ELSE IF i = j THEN t[i] ELSE t[i] \o " " \o JoinFrom(t, i + 1, j)

\* move text: "accept" (file rank file rank [qrbn]), "dontcare" (fifth letter another piece letter), "reject"
MoveClass(t) ==
  IF IsMoveText(t) THEN "accept"
  ELSE IF /\ Len(t) = 5
          /\ Ch(t, 1) \in FileChars /\ Ch(t, 2) \in RankChars /\ Ch(t, 3) \in FileChars /\ Ch(t, 4) \in RankChars
          /\ Ch(t, 5) \in {"k", "K", "p", "P", "Q", "R", "B", "N"}
       THEN "dontcare" ELSE "reject"
Worst(S) == IF "reject" \in S THEN "reject" ELSE IF "dontcare" \in S THEN "dontcare" ELSE "accept"
MovesClass(t, i, j) == Worst({MoveClass(t[k]) : k \in i .. j})

\* unsigned number: accept up to 2^63-1, beyond that the property is silent
Max63 == "9223372036854775807"
UNumClass(t) == IF IsDigits(t) THEN (IF NumLE(Canon(t), Max63) THEN "accept" ELSE "dontcare")
                ELSE IF Len(t) > 1 /\ Ch(t, 1) = "+" /\ IsDigits(SubSeq(t, 2, Len(t))) THEN "dontcare"
                ELSE "reject"
\* time values may be written with a sign; negative values are clamped by the engine: don't care
TNumClass(t) == IF Len(t) > 1 /\ Ch(t, 1) = "-" /\ IsDigits(SubSeq(t, 2, Len(t))) THEN "dontcare" ELSE UNumClass(t)

GoKeys == {"searchmoves", "ponder", "wtime", "btime", "winc", "binc", "movestogo", "depth", "nodes", "mate", "movetime", "infinite"}
TimeKeys == {"wtime", "btime", "winc", "binc", "movetime"}
CountKeys == {"movestogo", "depth", "nodes", "mate"}

EmptyGo == [t |-> "go", searchmoves |-> <<>>, ponder |-> FALSE, infinite |-> FALSE,
            wtime |-> "none", btime |-> "none", winc |-> "none", binc |-> "none", movetime |-> "none",
            movestogo |-> "none", depth |-> "none", nodes |-> "none", mate |-> "none"]

RECURSIVE SmEnd(_, _)
SmEnd(t, i) == IF i <= Len(t) /\ t[i] \notin GoKeys THEN SmEnd(t, i + 1) ELSE i

\* acc = [cls, go, seen]
RECURSIVE PGo(_, _, _)
PGo(t, i, acc) ==
  IF acc.cls = "reject" \/ i > Len(t) THEN acc
  ELSE LET k == t[i] IN
    IF k \in acc.seen THEN [acc EXCEPT !.cls = "reject"]
    ELSE IF k \notin GoKeys THEN [acc EXCEPT !.cls = "reject"]
    ELSE IF k = "ponder" THEN PGo(t, i + 1, [acc EXCEPT !.go.ponder = TRUE, !.seen = @ \cup {k}])
    ELSE IF k = "infinite" THEN PGo(t, i + 1, [acc EXCEPT !.go.infinite = TRUE, !.seen = @ \cup {k}])
    ELSE IF k = "searchmoves" THEN
      LET e == SmEnd(t, i + 1)
          c == IF e = i + 1 THEN "dontcare" ELSE MovesClass(t, i + 1, e - 1)
      IN PGo(t, e, [acc EXCEPT !.cls = Worst({acc.cls, c}), !.go.searchmoves = SubSeq(t, i + 1, e - 1), !.seen = @ \cup {k}])
    ELSE IF i + 1 > Len(t) THEN [acc EXCEPT !.cls = "reject"]
    ELSE LET c == IF k \in TimeKeys THEN TNumClass(t[i + 1]) ELSE UNumClass(t[i + 1])
         IN PGo(t, i + 2, [acc EXCEPT !.cls = Worst({acc.cls, c}),
                                     !.go = [@ EXCEPT ![k] = IF c = "accept" THEN Canon(t[i + 1]) ELSE "?"],
                                     !.seen = @ \cup {k}])

StartFenText == "rnbqkbnr/pppppppp/8/8/8/8/PPPPPPPP/RNBQKBNR w KQkq - 0 1"

IndexOf(t, tok, from) == IF \E i \in from .. Len(t) : t[i] = tok
                         THEN CHOOSE i \in from .. Len(t) : t[i] = tok /\ \A j \in from .. i - 1 : t[j] # tok
                         ELSE 0

ParsePosition(t) ==
  LET n == Len(t) IN
  IF n < 2 THEN <<"reject", <<>>>>
  ELSE IF t[2] = "startpos" THEN
    IF n = 2 THEN <<"accept", [t |-> "position", fen |-> StartFenText, moves |-> <<>>]>>
    ELSE IF t[3] # "moves" THEN <<"reject", <<>>>>
    ELSE LET c == IF n = 3 THEN "accept" ELSE MovesClass(t, 4, n)
         IN <<c, [t |-> "position", fen |-> StartFenText, moves |-> SubSeq(t, 4, n)]>>
  ELSE IF t[2] = "fen" THEN
    LET m == IndexOf(t, "moves", 3)
        fe == IF m = 0 THEN n ELSE m - 1
        fen == JoinFrom(t, 3, fe)
        fc == IF fe < 3 THEN "reject" ELSE FenClass(fen)
        mc == IF m = 0 \/ m = n THEN "accept" ELSE MovesClass(t, m + 1, n)
    IN <<Worst({fc, mc}), [t |-> "position", fen |-> fen, moves |-> IF m = 0 THEN <<>> ELSE SubSeq(t, m + 1, n)]>>
  ELSE <<"reject", <<>>>>

ParseRegister(t) ==
  LET n == Len(t) IN
  IF n < 2 THEN <<"reject", <<>>>>
  ELSE IF t[2] = "later" THEN (IF n = 2 THEN <<"accept", [t |-> "registerlater"]>> ELSE <<"dontcare", <<>>>>)
  ELSE IF t[2] # "name" THEN <<"reject", <<>>>>
  ELSE LET c == IndexOf(t, "code", 3) IN
       IF c = 0 \/ n < 3 THEN <<"dontcare", <<>>>>            \* name without code: the property is silent
       ELSE IF c = 3 THEN <<"dontcare", <<>>>>                \* code before any name token
       ELSE IF c = n THEN <<"reject", <<>>>>                  \* code keyword without a code
       ELSE <<"accept", [t |-> "register", name |-> JoinFrom(t, 3, c - 1), code |-> JoinFrom(t, c + 1, n)]>>

ParseSetOption(t) ==
  LET n == Len(t) IN
  IF n < 3 \/ t[2] # "name" THEN <<"reject", <<>>>>
  ELSE IF t[3] = "value" THEN <<"dontcare", <<>>>>            \* a name containing the token `value`
  ELSE LET v == IndexOf(t, "value", 4) IN
       IF v = 0 THEN <<"accept", [t |-> "setoption", name |-> JoinFrom(t, 3, n), hasvalue |-> FALSE, value |-> ""]>>
       ELSE IF v = n THEN <<"reject", <<>>>>                  \* value keyword without a value
       ELSE <<"accept", [t |-> "setoption", name |-> JoinFrom(t, 3, v - 1), hasvalue |-> TRUE, value |-> JoinFrom(t, v + 1, n)]>>

Simple == {"uci", "isready", "ucinewgame", "stop", "ponderhit", "quit"}

ParseCommand(line) ==
  LET t == CmdTokens(line)
      n == Len(t)
  IN IF n = 0 THEN <<"reject", <<>>>>
     ELSE IF HasTabInside(line) THEN <<"dontcare", <<>>>>      \* tabs as separators: the property is silent
     ELSE IF t[1] \in Simple THEN (IF n = 1 THEN <<"accept", [t |-> t[1]]>> ELSE <<"dontcare", <<>>>>)
     ELSE IF t[1] = "debug" THEN
       IF n >= 2 /\ t[2] \in {"on", "off"} THEN (IF n = 2 THEN <<"accept", [t |-> "debug", on |-> t[2] = "on"]>> ELSE <<"dontcare", <<>>>>)
       ELSE <<"reject", <<>>>>
     ELSE IF t[1] = "go" THEN
       LET r == PGo(t, 2, [cls |-> "accept", go |-> EmptyGo, seen |-> {}]) IN <<r.cls, r.go>>
     ELSE IF t[1] = "position" THEN ParsePosition(t)
     ELSE IF t[1] = "register" THEN ParseRegister(t)
     ELSE IF t[1] = "setoption" THEN ParseSetOption(t)
     ELSE <<"reject", <<>>>>
=============================================================================

"""property id -> check function(tier, replay) for everything that is not a plain board-trace check"""
import enginefam
import searchfam
import tablefam
import tablesfam
import textfam

CHECKS = {
    "C04": tablesfam.check,
    "C07": enginefam.check_c07,
    "C08": searchfam.check_c08,
    "C09": enginefam.check_c09,
    "C10": searchfam.check_c10,
    "C11": searchfam.check_c11,
    "C12": textfam.check_c12,
    "C15": textfam.check_c15,
    "C16": enginefam.check_c16,
    "C17": textfam.check_c17,
    "C18": tablefam.check,
    "C19": textfam.check_c19,
}

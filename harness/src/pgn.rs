//! `pgn` family (C17): feed a database text to PgnRawParser with a given chunk size through a Read adaptor
//! whose fragment sizes follow a given schedule; record the items the iterator yields, and replay the
//! yielded SAN moves of every complete item on a board (final FEN).
//! Case: {"id":n,"text_id":k,"chunk":c,"frag":[..]}  (texts: separate JSON file, arg 3)
use std::io::Read;

use inkayaku_board::Bitboard;
use inkayaku_core::fen::Fen;
use inkayaku_pgn::reader::{PgnRaw, PgnRawParser};
use serde_json::{json, Value};

use crate::util::{guarded, quiet_panics, read_cases, u64_of, Out};

/// a reader that returns at most frag[i] bytes on its i-th call (cycling), never more than asked for
struct Fragmented<'a> {
    data: &'a [u8],
    off: usize,
    frag: Vec<usize>,
    i: usize,
}

impl<'a> Read for Fragmented<'a> {
    fn read(&mut self, buf: &mut [u8]) -> std::io::Result<usize> {
        let want = if self.frag.is_empty() { buf.len() } else { self.frag[self.i % self.frag.len()].max(1) };
        self.i += 1;
        let n = want.min(buf.len()).min(self.data.len() - self.off);
        buf[..n].copy_from_slice(&self.data[self.off..self.off + n]);
        self.off += n;
        Ok(n)
    }
}

fn item(r: &PgnRaw) -> Value {
    let mut tags: Vec<(String, String)> = r.tag_pairs.iter().map(|(k, v)| (k.clone(), v.clone())).collect();
    tags.sort();
    let moves: Vec<Value> = r.moves.iter().map(|m| json!([m.mv, m.annotation.clone().unwrap_or_else(|| "none".to_string())])).collect();
    json!({"st": "ok", "tags": tags, "moves": moves})
}

fn replay(r: &PgnRaw) -> String {
    let start = r.tag_pairs.get("FEN").cloned();
    let res = guarded(|| {
        let mut b = match &start { Some(f) => match Bitboard::from_fen_string(f) { Ok(b) => b, Err(_) => return "bad FEN tag".to_string() }, None => Bitboard::default() };
        for (i, m) in r.moves.iter().enumerate() {
            match b.pgn_to_bb(&m.mv) {
                Ok(mv) => b.make(mv),
                Err(_) => return format!("move {} '{}' not accepted", i + 1, m.mv),
            }
        }
        Fen::from(&b).fen
    });
    res.unwrap_or_else(|m| format!("panic: {}", m))
}

pub fn run(args: &[String]) -> i32 {
    quiet_panics();
    let cases = read_cases(&args[0]);
    let mut out = Out::create(&args[1]);
    let dbs: Value = serde_json::from_str(&std::fs::read_to_string(&args[2]).expect("dbs file")).expect("dbs json");
    for case in cases {
        let id = u64_of(&case, "id", 0);
        let tid = u64_of(&case, "text_id", 1) as usize;
        let chunk = u64_of(&case, "chunk", 8192) as usize;
        let frag: Vec<usize> = case.get("frag").and_then(|f| f.as_array()).map(|a| a.iter().map(|x| x.as_u64().unwrap_or(1) as usize).collect()).unwrap_or_default();
        let text = dbs[tid - 1]["text"].as_str().unwrap_or("").to_string();
        let r = guarded(|| {
            let rd = Fragmented { data: text.as_bytes(), off: 0, frag: frag.clone(), i: 0 };
            let mut items = Vec::new();
            let mut replays = Vec::new();
            for (k, it) in PgnRawParser::with_chunk_size(rd, chunk).enumerate() {
                if k > 200 { items.push(json!({"st": "runaway", "tags": [], "moves": []})); break; }
                match it {
                    Ok(raw) => { items.push(item(&raw)); replays.push(replay(&raw)); }
                    Err(e) => { items.push(json!({"st": format!("err: {:?}", e), "tags": [], "moves": []})); replays.push("err".to_string()); }
                }
            }
            (items, replays)
        });
        let ev = match r {
            Ok((items, replays)) => json!({"c": id, "ev": "pgn", "text_id": tid, "chunk": chunk, "frag": frag, "st": "ok", "items": items, "replay": replays}),
            Err(m) => json!({"c": id, "ev": "pgn", "text_id": tid, "chunk": chunk, "frag": frag, "st": format!("panic: {}", m), "items": [], "replay": []}),
        };
        out.emit(&ev);
    }
    0
}

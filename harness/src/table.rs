//! `table` family (C18): drive the private HashTable<ZobristHash, u64> through hook H4.
//! Case: {"id":n, "cap":c, "keymap":["<u64>",…], "ops":[{"op":"put","k":i,"v":x}|{"op":"get","k":i}|{"op":"clear"}]}
//! Keys are abstract indices (1-based) into keymap, so the specification never sees the 64-bit values.
use inkayaku_engine_core::verif::VerifTable;
use serde_json::{json, Value};

use crate::util::{guarded, quiet_panics, read_cases, str_of, u64_of, Out};

fn fill(t: &VerifTable) -> Value {
    let (q, m) = t.internal_lens();
    json!({"len": t.len(), "lf6": (t.load_factor() as f64 * 1e6).round() as u64, "qlen": q, "mlen": m})
}

fn with(mut base: Value, extra: Value) -> Value {
    for (k, v) in extra.as_object().unwrap() {
        base[k] = v.clone();
    }
    base
}

pub fn run(args: &[String]) -> i32 {
    quiet_panics();
    let cases = read_cases(&args[0]);
    let mut out = Out::create(&args[1]);
    for case in cases {
        let id = u64_of(&case, "id", 0);
        let cap = u64_of(&case, "cap", 1) as usize;
        let keymap: Vec<u64> = case.get("keymap").and_then(|k| k.as_array()).map(|a| a.iter().map(|x| x.as_str().unwrap_or("0").parse::<u64>().unwrap_or(0)).collect()).unwrap_or_default();
        let key = |i: u64| -> u64 { keymap.get((i as usize).wrapping_sub(1)).copied().unwrap_or(i) };
        let mut t = VerifTable::new(cap);
        out.emit(&with(json!({"c": id, "ev": "reset", "cap": cap}), fill(&t)));
        let empty = Vec::new();
        for op in case.get("ops").and_then(|o| o.as_array()).unwrap_or(&empty) {
            let k = u64_of(op, "k", 0);
            let r = match str_of(op, "op").as_str() {
                "put" => {
                    let v = u64_of(op, "v", 0);
                    guarded(|| { t.put(key(k), v); with(json!({"c": id, "ev": "put", "k": k, "v": v}), fill(&t)) })
                }
                "get" => guarded(|| {
                    let r = t.get(key(k));
                    with(json!({"c": id, "ev": "get", "k": k, "st": if r.is_some() { "some" } else { "none" }, "v": r.unwrap_or(0)}), fill(&t))
                }),
                _ => guarded(|| { t.clear(); with(json!({"c": id, "ev": "clear"}), fill(&t)) }),
            };
            match r {
                Ok(ev) => out.emit(&ev),
                Err(m) => {
                    out.emit(&json!({"c": id, "ev": "panic", "during": str_of(op, "op"), "msg": m, "p": "C18"}));
                    break;
                }
            }
        }
    }
    0
}

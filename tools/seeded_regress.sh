#!/bin/bash
# Development tool (not a registered check): re-runs the stored seeded changes of /verif/seeded against the current
# checks.  Nothing is ever applied to /repo: each change is applied in a scratch git worktree of /repo, and the checks
# run from a scratch copy of /verif whose harness points at that worktree.  Everything scratch is removed at the end.
#   usage: tools/seeded_regress.sh [ID ...]        (default: every directory of /verif/seeded)
# Prints one line per (seeded change, check): CAUGHT / MISSED / TOOL-ERROR.
set -u
VERIF=$(cd "$(dirname "$0")/.." && pwd)
SCR=$(mktemp -d "${TMPDIR:-/tmp}/seedreg.XXXXXX")
trap 'git -C /repo worktree remove --force "$SCR/wt" 2>/dev/null; git -C /repo worktree prune; rm -rf "$SCR"' EXIT
rsync -a --exclude work --exclude replays --exclude 'harness/target*' --exclude .git "$VERIF/" "$SCR/verif/"
sed -i "s#path = \"/repo/#path = \"$SCR/cur/#" "$SCR/verif/harness/Cargo.toml"
IDS=("$@"); [ ${#IDS[@]} -eq 0 ] && IDS=($(ls "$VERIF/seeded"))
for ID in "${IDS[@]}"; do
  D="$VERIF/seeded/$ID"
  [ -f "$D/patch.diff" ] || continue
  git -C /repo worktree remove --force "$SCR/wt" 2>/dev/null; rm -rf "$SCR/wt"; git -C /repo worktree prune
  git -C /repo worktree add -q --detach "$SCR/wt" HEAD || { echo "$ID TOOL-ERROR worktree"; continue; }
  git -C "$SCR/wt" apply "$D/patch.diff" || { echo "$ID TOOL-ERROR patch does not apply to /repo HEAD"; continue; }
  ln -sfn "$SCR/wt" "$SCR/cur"
  for C in $(python3 -c "import json,sys; print(' '.join(json.load(open('$D/meta.json')).get('regress_checks', [])))"); do
    OUT=$(cd "$SCR/verif" && VERIF_REPO="$SCR/cur" nice ./check "$C" 2>&1)
    RC=$?
    if [ $RC -eq 1 ] && echo "$OUT" | grep -q "^VIOLATION property=$C "; then echo "$ID vs $C: CAUGHT"
    elif [ $RC -eq 0 ]; then echo "$ID vs $C: MISSED"
    else echo "$ID vs $C: TOOL-ERROR (exit $RC)"; echo "$OUT" | tail -5; fi
  done
done

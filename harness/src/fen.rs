//! `fen` family (C12): hand a string to Fen::from_str / Bitboard::from_fen_string and record what comes back:
//! error, panic, or the decoded position read through the public accessors, plus the FEN written back.
use std::str::FromStr;

use inkayaku_board::Bitboard;
use inkayaku_core::constants::Square;
use inkayaku_core::fen::Fen;
use serde_json::{json, Value};

use crate::util::{guarded, quiet_panics, read_cases, shift_name, str_of, u64_of, Out};

fn decode(b: &Bitboard) -> Value {
    // cells in the specification's order a1, b1, … h8
    let mut cells = String::new();
    for rank in 0..8usize {
        for file in 0..8usize {
            // Square::from_indices(file, rank_index) with rank_index 0 = rank 8
            let sq = Square::from_indices(file, 7 - rank).expect("square");
            cells.push(b.get_colored_piece(sq).map_or('.', |p| p.fen));
        }
    }
    let cr: String = [('K', b.white.king_side_castle), ('Q', b.white.queen_side_castle), ('k', b.black.king_side_castle), ('q', b.black.queen_side_castle)]
        .iter().filter(|t| t.1).map(|t| t.0).collect();
    json!({
        "cells": cells,
        "stm": if b.turn == 0 { "w" } else { "b" },
        "cr": if cr.is_empty() { "-".to_string() } else { cr },
        "ep": if b.en_passant_square_shift == 0 { "-".to_string() } else { shift_name(b.en_passant_square_shift) },
        "hmc": b.halfmove_clock.to_string(),
        "fmn": b.fullmove_clock.to_string(),
    })
}

pub fn run(args: &[String]) -> i32 {
    quiet_panics();
    let cases = read_cases(&args[0]);
    let mut out = Out::create(&args[1]);
    for case in cases {
        let id = u64_of(&case, "id", 0);
        let s = str_of(&case, "s");
        let valid = guarded(|| Fen::is_valid(&s));
        let parsed = guarded(|| Fen::from_str(&s).is_ok());
        let loaded = guarded(|| Bitboard::from_fen_string(&s).map(|b| (decode(&b), Fen::from(&b).fen)));
        let none = json!({"cells": "", "stm": "", "cr": "", "ep": "", "hmc": "", "fmn": ""});
        let ev = match (valid, parsed, loaded) {
            (Ok(v), Ok(_), Ok(Ok((dec, rendered)))) => json!({"c": id, "ev": "fen", "s": s, "st": "ok", "valid": v, "dec": dec, "rendered": rendered}),
            (Ok(v), Ok(_), Ok(Err(_))) => json!({"c": id, "ev": "fen", "s": s, "st": "err", "valid": v, "dec": none, "rendered": ""}),
            (v, p, l) => {
                let msg = [v.err(), p.err(), l.err()].into_iter().flatten().next().unwrap_or_default();
                json!({"c": id, "ev": "fen", "s": s, "st": format!("panic: {}", msg), "valid": false, "dec": none, "rendered": ""})
            }
        };
        out.emit(&ev);
    }
    0
}

INIT Init
NEXT Next

//! `uci` family (C15): hand lines to CommandParser and move texts to UciMove::from_str; record the result
//! projected field by field to JSON.
//! Case: {"id":n,"k":"line","s":..} | {"id":n,"k":"move","s":..} | {"id":n,"k":"fmt_all"}
use std::str::FromStr;
use std::time::Duration;

use inkayaku_core::constants::{Piece, Square};
use inkayaku_uci::parser::CommandParser;
use inkayaku_uci::{Go, UciCommand, UciMove};
use serde_json::{json, Value};

use crate::util::{guarded, quiet_panics, read_cases, str_of, u64_of, Out};

fn dur(d: Option<Duration>) -> Value {
    Value::String(d.map_or_else(|| "none".to_string(), |x| x.as_millis().to_string()))
}
fn num(d: Option<u64>) -> Value {
    Value::String(d.map_or_else(|| "none".to_string(), |x| x.to_string()))
}
fn moves(m: &[UciMove]) -> Vec<String> {
    m.iter().map(|x| x.to_string()).collect()
}

fn project_go(go: &Go) -> Value {
    json!({"t": "go", "searchmoves": moves(&go.search_moves), "ponder": go.ponder, "infinite": go.infinite,
           "wtime": dur(go.white_time), "btime": dur(go.black_time), "winc": dur(go.white_increment), "binc": dur(go.black_increment),
           "movetime": dur(go.move_time), "movestogo": num(go.moves_to_go), "depth": num(go.depth), "nodes": num(go.nodes), "mate": num(go.mate)})
}

fn project(cmd: &UciCommand) -> Value {
    match cmd {
        UciCommand::Uci => json!({"t": "uci"}),
        UciCommand::IsReady => json!({"t": "isready"}),
        UciCommand::UciNewGame => json!({"t": "ucinewgame"}),
        UciCommand::Stop => json!({"t": "stop"}),
        UciCommand::PonderHit => json!({"t": "ponderhit"}),
        UciCommand::Quit => json!({"t": "quit"}),
        UciCommand::RegisterLater => json!({"t": "registerlater"}),
        UciCommand::SetDebug { debug } => json!({"t": "debug", "on": debug}),
        UciCommand::SetOption { name } => json!({"t": "setoption", "name": name, "hasvalue": false, "value": ""}),
        UciCommand::SetOptionValue { name, value } => json!({"t": "setoption", "name": name, "hasvalue": true, "value": value}),
        UciCommand::Register { name, code } => json!({"t": "register", "name": name, "code": code}),
        UciCommand::PositionFrom { fen, moves: m } => json!({"t": "position", "fen": fen.fen, "moves": moves(m)}),
        UciCommand::Go { go } => project_go(go),
    }
}

pub fn run(args: &[String]) -> i32 {
    quiet_panics();
    let cases = read_cases(&args[0]);
    let mut out = Out::create(&args[1]);
    for case in cases {
        let id = u64_of(&case, "id", 0);
        let s = str_of(&case, "s");
        match str_of(&case, "k").as_str() {
            "line" => {
                let r = guarded(|| CommandParser::new(&s).parse().map(|c| project(&c)));
                let ev = match r {
                    Ok(Ok(cmd)) => json!({"c": id, "ev": "uci_line", "s": s, "st": "ok", "cmd": cmd}),
                    Ok(Err(e)) => json!({"c": id, "ev": "uci_line", "s": s, "st": "err", "cmd": {"t": format!("{:?}", e).chars().take(60).collect::<String>()}}),
                    Err(m) => json!({"c": id, "ev": "uci_line", "s": s, "st": format!("panic: {}", m), "cmd": {"t": "panic"}}),
                };
                out.emit(&ev);
            }
            "move" => {
                let r = guarded(|| UciMove::from_str(&s).map(|m| m.to_string()));
                let ev = match r {
                    Ok(Ok(back)) => json!({"c": id, "ev": "uci_move", "s": s, "st": "ok", "back": back}),
                    Ok(Err(_)) => json!({"c": id, "ev": "uci_move", "s": s, "st": "err", "back": ""}),
                    Err(m) => json!({"c": id, "ev": "uci_move", "s": s, "st": format!("panic: {}", m), "back": ""}),
                };
                out.emit(&ev);
            }
            "fmt_all" => {
                // every move value: 64 x 64 squares x {none, q, r, b, n}
                for from in Square::VALUES {
                    for to in Square::VALUES {
                        for promo in [None, Some(Piece::QUEEN), Some(Piece::ROOK), Some(Piece::BISHOP), Some(Piece::KNIGHT)] {
                            let mv = match promo { Some(p) => UciMove::new_with_promotion(from, to, p), None => UciMove::new(from, to) };
                            let s2 = mv.to_string();
                            let back = guarded(|| UciMove::from_str(&s2).map(|m| m.to_string()));
                            let (st2, back2) = match back { Ok(Ok(b)) => ("ok".to_string(), b), Ok(Err(_)) => ("err".to_string(), String::new()), Err(m) => (format!("panic: {}", m), String::new()) };
                            out.emit(&json!({"c": id, "ev": "uci_fmt", "from": from.fen, "to": to.fen, "promo": promo.map_or(String::new(), |p| p.fen.to_string()), "s2": s2, "st2": st2, "back2": back2}));
                        }
                    }
                }
            }
            _ => {}
        }
    }
    0
}

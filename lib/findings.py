"""Known findings: a mismatch is downgraded to KNOWN-FINDING only if BOTH the case inputs satisfy the
finding's input predicate AND the mismatch has the finding's kind (event type + what failed).  Anything else
of the same property is still a VIOLATION.  known_findings.json is never written at run time."""
import re

# input predicates: name -> function(case, note, params) -> bool
PREDICATES = {}


def predicate(name):
    def deco(f):
        PREDICATES[name] = f
        return f
    return deco


@predicate("always")
def _always(case, note, params):
    return True


def matcher_for(prop):
    def m(k, case, note):
        spec = k.get("match", {})
        pred = PREDICATES.get(spec.get("input", ""), None)
        if pred is None or not pred(case, note, spec.get("params", {})):
            return False
        kind = spec.get("kind", {})
        if "ev" in kind and note.get("ev") != kind["ev"]:
            return False
        if "w" in kind and not re.search(kind["w"], note.get("w", "")):
            return False
        return True
    return m

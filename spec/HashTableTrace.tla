--------------------------- MODULE HashTableTrace ---------------------------
(* Trace validation of the real HashTable<ZobristHash, u64> (through hook H4) against HashTable.tla.   *)
(* Keys are abstract indices; the harness maps them to concrete 64-bit keys chosen by the case.        *)
EXTENDS HashTable, TLC, Json, IOUtils

Rec == ndJsonDeserialize(IOEnv.TRACE)
VARIABLES l, bad, nbad, ntr, seen   \* seen: keys ever evicted or cleared in this case (for the non-triviality rule)
vars == <<map, queue, cap, l, bad, nbad, ntr, seen>>
Ev == Rec[l]

Fails(chks) == SelectSeq(chks, LAMBDA c : ~c[1])
Record(chks) ==
  LET f == Fails(chks)
      ns == [i \in 1 .. Len(f) |-> [c |-> Ev.c, l |-> l, ev |-> Ev.ev, p |-> "C18", w |-> f[i][2], x |-> f[i][3]]]
  IN nbad' = nbad + Len(ns) /\ bad' = IF Len(bad) >= 60 THEN bad ELSE bad \o ns

\* reported fill level: lf6 = load_factor * 10^6 (rounded); must equal len / cap
FillOk(lf6, len, c) == LET d == lf6 * c - len * 1000000 IN d <= 2 * c /\ -d <= 2 * c
LenChecks(m, c) ==
  << <<Ev.len = LenOf(m), "len", ToString(LenOf(m))>>,
     <<FillOk(Ev.lf6, LenOf(m), c), "load_factor * capacity = len", ToString(<<LenOf(m), c>>)>>,
     <<Ev.qlen = LenOf(m) /\ Ev.mlen = LenOf(m), "internal queue and map lengths", ToString(LenOf(m))>>,
     <<LenOf(m) <= c, "size within capacity", ToString(c)>> >>

Reset ==
  /\ Ev.ev = "reset"
  /\ map' = <<>> /\ queue' = <<>> /\ cap' = Ev.cap /\ seen' = {}
  /\ Record(LenChecks(<<>>, Ev.cap)) /\ UNCHANGED ntr

TPut ==
  /\ Ev.ev = "put"
  /\ LET a == AfterPut(map, queue, cap, Ev.k, Ev.v)
         evicted == (DOMAIN map) \ (DOMAIN a.map)
     IN /\ map' = a.map /\ queue' = a.queue /\ UNCHANGED cap
        /\ Record(LenChecks(a.map, cap))
        /\ seen' = seen \cup evicted
        /\ ntr' = IF evicted # {} \/ Ev.k \in DOMAIN map \/ Ev.k \in seen THEN ntr \cup {l} ELSE ntr

TGet ==
  /\ Ev.ev = "get"
  /\ LET r == GetResult(map, Ev.k)
     IN Record(<< <<(Ev.st = "some") = r[1], "lookup hit/miss", ToString(r[1])>>,
                  <<r[1] => Ev.v = r[2], "lookup value", ToString(r[2])>> >> \o LenChecks(map, cap))
  /\ ntr' = IF Ev.k \in seen \/ Ev.k \in DOMAIN map THEN ntr \cup {l} ELSE ntr
  /\ UNCHANGED <<map, queue, cap, seen>>

TClear ==
  /\ Ev.ev = "clear"
  /\ map' = <<>> /\ queue' = <<>> /\ UNCHANGED cap
  /\ seen' = seen \cup DOMAIN map
  /\ Record(LenChecks(<<>>, cap)) /\ UNCHANGED ntr

TPanic ==
  /\ Ev.ev = "panic"
  /\ Record(<< <<FALSE, "panic during " \o Ev.during \o ": " \o Ev.msg, "no panic">> >>)
  /\ UNCHANGED <<map, queue, cap, ntr, seen>>

Next == l <= Len(Rec) /\ l' = l + 1 /\ (Reset \/ TPut \/ TGet \/ TClear \/ TPanic)
Init == map = <<>> /\ queue = <<>> /\ cap = 1 /\ l = 1 /\ bad = <<>> /\ nbad = 0 /\ ntr = {} /\ seen = {}
Spec == Init /\ [][Next]_vars

\* the design invariants are evaluated on every state of the real run as well
Report == (l = Len(Rec) + 1) => JsonSerialize(IOEnv.OUT, [lines |-> Len(Rec), nbad |-> nbad, bad |-> bad, ntr |-> ntr])
Consumed == \/ TLCGet("stats").diameter - 1 = Len(Rec)
            \/ PrintT(<<"NOT CONSUMED", TLCGet("stats").diameter - 1, Len(Rec)>>) /\ FALSE
=============================================================================

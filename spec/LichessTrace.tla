---------------------------- MODULE LichessTrace ----------------------------
(* C19: one step per document.  The abstract message (what the document carries), the decode status and *)
(* the field-by-field projection of the decoded value are logged; TLC compares them.                    *)
EXTENDS Lichess, Json, IOUtils, TLC

Rec == ndJsonDeserialize(IOEnv.TRACE)
VARIABLES l, bad, nbad, ntr, ncls
vars == <<l, bad, nbad, ntr, ncls>>
Ev == Rec[l]

Fails(chks) == SelectSeq(chks, LAMBDA c : ~c[1])
Record(chks) ==
  LET f == Fails(chks)
      ns == [i \in 1 .. Len(f) |-> [c |-> Ev.c, l |-> l, ev |-> Ev.ev, p |-> "C19", w |-> f[i][2], x |-> f[i][3]]]
  IN nbad' = nbad + Len(ns) /\ bad' = IF Len(bad) >= 60 THEN bad ELSE bad \o ns

IsPanic(st) == Len(st) >= 5 /\ SubSeq(st, 1, 5) = "panic"

Doc ==
  /\ Ev.ev = "lichess"
  /\ LET msg == Ev.msg
         std == Ev.cls = "std" /\ WellShaped(msg)          \* a documented shape: must decode to what it carries
         dec == Ev.dec
         wrong == {k \in DOMAIN msg : k \notin DOMAIN dec \/ dec[k] # ExpectedField(msg, k)}
         mk == (DOMAIN msg) \cap MovesKeys
     IN /\ Record(
            << <<~IsPanic(Ev.st), "decoder must not panic: " \o Ev.st, "ok or err">>,
               <<Ev.cls # "std" \/ WellShaped(msg), "generator produced a message outside the documented shapes (machinery error)", ToString(msg)>>,
               <<std => Ev.st = "ok", "documented " \o msg["type"] \o " message must decode: " \o Ev.st, "ok">>,
               <<(std /\ Ev.st = "ok") => wrong = {}, "decoded value differs from the transmitted one in " \o ToString(wrong) \o ": decoded " \o
                  ToString([k \in wrong \cap DOMAIN dec |-> dec[k]]), ToString([k \in wrong |-> ExpectedField(msg, k)])>>,
               <<(std /\ Ev.st = "ok") => DOMAIN dec = DOMAIN msg, "projection has other fields than the message", ToString(DOMAIN msg)>>,
               <<(std /\ Ev.st = "ok") => \A i \in 1 .. Len(Ev.mvok) : Ev.mvok[i], "a decoded move is not accepted by the UCI move parser", "all accepted">> >>)
        /\ ntr' = IF std THEN ntr \cup {l} ELSE ntr
        /\ ncls' = [ncls EXCEPT ![IF std THEN "accept" ELSE "dontcare"] = @ + 1]

\* the harness process died while handling this case
Panic ==
  /\ Ev.ev = "panic"
  /\ Record(<< <<FALSE, "process aborted during " \o Ev.during \o ": " \o Ev.msg, "no abort">> >>)
  /\ UNCHANGED <<ntr, ncls>>

Next == l <= Len(Rec) /\ l' = l + 1 /\ (Doc \/ Panic)
Init == l = 1 /\ bad = <<>> /\ nbad = 0 /\ ntr = {} /\ ncls = [c \in {"accept", "reject", "dontcare"} |-> 0]
Spec == Init /\ [][Next]_vars
Report == (l = Len(Rec) + 1) => JsonSerialize(IOEnv.OUT, [lines |-> Len(Rec), nbad |-> nbad, bad |-> bad, ntr |-> ntr, ncls |-> ncls])
Consumed == \/ TLCGet("stats").diameter - 1 = Len(Rec)
            \/ PrintT(<<"NOT CONSUMED", TLCGet("stats").diameter - 1, Len(Rec)>>) /\ FALSE
=============================================================================

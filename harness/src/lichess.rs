//! `lichess` family (C19): decode one JSON document per case with the real serde models and project the
//! decoded value to a flat map "dotted.field.name" -> string (moves: list of strings).  Absent = "none".
use inkayaku_lichess_api::api::bot_event_response::{BotEvent, ChallengeEventInfo, ChallengeEventTimeControl, Challenger, Compat, GameEventInfo};
use inkayaku_lichess_api::api::bot_game_state_response::{BotGameState, GameStateHolder, Player};
use std::str::FromStr;

use serde::Serialize;
use serde_json::{json, Map, Value};

use crate::util::{guarded, quiet_panics, read_cases, str_of, u64_of, Out};

fn s<T: ToString>(v: T) -> Value { Value::String(v.to_string()) }
fn o<T: ToString>(v: &Option<T>) -> Value { Value::String(v.as_ref().map_or_else(|| "none".to_string(), |x| x.to_string())) }
/// enums are projected through their own serde name (that is the vocabulary the document uses)
fn e<T: Serialize>(v: &T) -> Value {
    match serde_json::to_value(v) { Ok(Value::String(x)) => Value::String(x), Ok(other) => Value::String(other.to_string()), Err(_) => s("?") }
}
fn oe<T: Serialize>(v: &Option<T>) -> Value { v.as_ref().map_or_else(|| s("none"), |x| e(x)) }

fn state(m: &mut Map<String, Value>, p: &str, st: &GameStateHolder) {
    m.insert(format!("{}moves", p), json!(st.moves));
    m.insert(format!("{}wtime", p), s(st.wtime));
    m.insert(format!("{}btime", p), s(st.btime));
    m.insert(format!("{}winc", p), s(st.winc));
    m.insert(format!("{}binc", p), s(st.binc));
    m.insert(format!("{}status", p), e(&st.status));
    m.insert(format!("{}wdraw", p), o(&st.wdraw));
    m.insert(format!("{}bdraw", p), o(&st.bdraw));
    m.insert(format!("{}wtakeback", p), o(&st.wtakeback));
    m.insert(format!("{}btakeback", p), o(&st.btakeback));
    m.insert(format!("{}winner", p), oe(&st.winner));
    m.insert(format!("{}rematch", p), o(&st.rematch));
}

fn player(m: &mut Map<String, Value>, p: &str, pl: &Player) {
    m.insert(format!("{}aiLevel", p), o(&pl.ai_level));
    m.insert(format!("{}id", p), s(&pl.id));
    m.insert(format!("{}name", p), o(&pl.name));
    m.insert(format!("{}title", p), o(&pl.title));
    m.insert(format!("{}rating", p), o(&pl.rating));
    m.insert(format!("{}provisional", p), o(&pl.provisional));
}

fn compat(m: &mut Map<String, Value>, p: &str, c: &Option<Compat>) {
    m.insert(format!("{}bot", p), c.as_ref().map_or_else(|| s("none"), |x| s(x.bot)));
    m.insert(format!("{}board", p), c.as_ref().map_or_else(|| s("none"), |x| s(x.board)));
}

fn game_info(m: &mut Map<String, Value>, g: &GameEventInfo) {
    m.insert("game.fullId".into(), s(&g.full_id));
    m.insert("game.gameId".into(), s(&g.game_id));
    m.insert("game.fen".into(), s(&g.fen));
    m.insert("game.color".into(), e(&g.color));
    m.insert("game.lastMove".into(), s(&g.last_move));
    m.insert("game.source".into(), e(&g.source));
    let st = serde_json::to_value(&g.status).unwrap_or(Value::Null);
    m.insert("game.status.id".into(), s(st.get("id").and_then(Value::as_u64).map_or("?".to_string(), |x| x.to_string())));
    m.insert("game.status.name".into(), s(st.get("name").and_then(Value::as_str).unwrap_or("?")));
    m.insert("game.variant.key".into(), e(&g.variant.key));
    m.insert("game.variant.name".into(), s(&g.variant.name));
    m.insert("game.speed".into(), e(&g.speed));
    m.insert("game.perf".into(), e(&g.perf));
    m.insert("game.rated".into(), s(g.rated));
    m.insert("game.hasMoved".into(), s(g.has_moved));
    m.insert("game.opponent.id".into(), s(&g.opponent.id));
    m.insert("game.opponent.username".into(), s(&g.opponent.username));
    m.insert("game.opponent.rating".into(), o(&g.opponent.rating));
    m.insert("game.opponent.ratingDiff".into(), o(&g.opponent.rating_diff));
    m.insert("game.opponent.ai".into(), o(&g.opponent.ai));
    m.insert("game.secondsLeft".into(), o(&g.seconds_left));
    m.insert("game.tournamentId".into(), o(&g.tournament_id));
    m.insert("game.swissId".into(), o(&g.swiss_id));
    m.insert("game.orientation".into(), oe(&g.orientation));
    m.insert("game.winner".into(), oe(&g.winner));
    m.insert("game.ratingDiff".into(), o(&g.rating_diff));
    compat(m, "game.compat.", &g.compat);
}

fn challenger(m: &mut Map<String, Value>, p: &str, c: &Option<Challenger>) {
    let f = |g: &dyn Fn(&Challenger) -> Value| c.as_ref().map_or_else(|| s("none"), |x| g(x));
    m.insert(format!("{}id", p), f(&|x| s(&x.id)));
    m.insert(format!("{}name", p), f(&|x| s(&x.name)));
    m.insert(format!("{}title", p), f(&|x| o(&x.title)));
    m.insert(format!("{}rating", p), f(&|x| s(x.rating)));
    m.insert(format!("{}provisional", p), f(&|x| o(&x.provisional)));
    m.insert(format!("{}patron", p), f(&|x| o(&x.patron)));
    m.insert(format!("{}online", p), f(&|x| o(&x.online)));
    m.insert(format!("{}lag", p), f(&|x| o(&x.lag)));
}

fn challenge(m: &mut Map<String, Value>, c: &ChallengeEventInfo) {
    m.insert("challenge.id".into(), s(&c.id));
    m.insert("challenge.url".into(), s(&c.url));
    m.insert("challenge.status".into(), e(&c.status));
    challenger(m, "challenge.challenger.", &c.challenger);
    challenger(m, "challenge.destUser.", &c.dest_user);
    m.insert("challenge.variant.key".into(), e(&c.variant.key));
    m.insert("challenge.variant.name".into(), s(&c.variant.name));
    m.insert("challenge.variant.short".into(), s(&c.variant.short));
    m.insert("challenge.rated".into(), s(c.rated));
    m.insert("challenge.speed".into(), e(&c.speed));
    match &c.time_control {
        ChallengeEventTimeControl::Clock { limit, increment, show } => {
            m.insert("challenge.timeControl.type".into(), s("clock"));
            m.insert("challenge.timeControl.limit".into(), s(limit));
            m.insert("challenge.timeControl.increment".into(), s(increment));
            m.insert("challenge.timeControl.show".into(), s(show));
            m.insert("challenge.timeControl.daysPerTurn".into(), s("none"));
        }
        ChallengeEventTimeControl::Correspondence { days_per_turn } => {
            m.insert("challenge.timeControl.type".into(), s("correspondence"));
            m.insert("challenge.timeControl.limit".into(), s("none"));
            m.insert("challenge.timeControl.increment".into(), s("none"));
            m.insert("challenge.timeControl.show".into(), s("none"));
            m.insert("challenge.timeControl.daysPerTurn".into(), s(days_per_turn));
        }
        ChallengeEventTimeControl::Unlimited => {
            m.insert("challenge.timeControl.type".into(), s("unlimited"));
            m.insert("challenge.timeControl.limit".into(), s("none"));
            m.insert("challenge.timeControl.increment".into(), s("none"));
            m.insert("challenge.timeControl.show".into(), s("none"));
            m.insert("challenge.timeControl.daysPerTurn".into(), s("none"));
        }
    }
    m.insert("challenge.color".into(), e(&c.color));
    m.insert("challenge.finalColor".into(), e(&c.final_color));
    m.insert("challenge.perf.icon".into(), s(&c.perf.icon));
    m.insert("challenge.perf.name".into(), s(&c.perf.name));
    m.insert("challenge.rematchOf".into(), o(&c.rematch_of));
    m.insert("challenge.direction".into(), oe(&c.direction));
    m.insert("challenge.initialFen".into(), o(&c.initial_fen));
    m.insert("challenge.declineReason".into(), oe(&c.decline_reason));
}

fn project_game(g: &BotGameState) -> Value {
    let mut m = Map::new();
    match g {
        BotGameState::GameFull { state: st, id, variant, speed, perf, rated, created_at, white, black, initial_fen, clock, days_per_turn, tournament_id } => {
            m.insert("type".into(), s("gameFull"));
            m.insert("id".into(), s(id));
            m.insert("variant.key".into(), e(&variant.key));
            m.insert("variant.name".into(), s(&variant.name));
            m.insert("variant.short".into(), s(&variant.short));
            m.insert("speed".into(), e(speed));
            m.insert("perf.name".into(), s(&perf.name));
            m.insert("rated".into(), s(rated));
            m.insert("createdAt".into(), s(created_at));
            player(&mut m, "white.", white);
            player(&mut m, "black.", black);
            m.insert("initialFen".into(), s(initial_fen));
            m.insert("clock.initial".into(), clock.as_ref().map_or_else(|| s("none"), |c| s(c.initial)));
            m.insert("clock.increment".into(), clock.as_ref().map_or_else(|| s("none"), |c| s(c.increment)));
            m.insert("daysPerTurn".into(), o(days_per_turn));
            m.insert("tournamentId".into(), o(tournament_id));
            state(&mut m, "state.", st);
        }
        BotGameState::GameState { state: st } => {
            m.insert("type".into(), s("gameState"));
            state(&mut m, "", st);
        }
        BotGameState::ChatLine { room, username, text } => {
            m.insert("type".into(), s("chatLine"));
            m.insert("room".into(), e(room));
            m.insert("username".into(), s(username));
            m.insert("text".into(), s(text));
        }
        BotGameState::OpponentGone { gone, claim_win_in_seconds } => {
            m.insert("type".into(), s("opponentGone"));
            m.insert("gone".into(), s(gone));
            m.insert("claimWinInSeconds".into(), o(claim_win_in_seconds));
        }
    }
    Value::Object(m)
}

fn project_event(ev: &BotEvent) -> Value {
    let mut m = Map::new();
    match ev {
        BotEvent::GameStart { game } => { m.insert("type".into(), s("gameStart")); game_info(&mut m, game); }
        BotEvent::GameFinish { game } => { m.insert("type".into(), s("gameFinish")); game_info(&mut m, game); }
        BotEvent::Challenge { challenge: c, compat: cp } => { m.insert("type".into(), s("challenge")); challenge(&mut m, c); compat(&mut m, "compat.", cp); }
        BotEvent::ChallengeDeclined { challenge: c } => { m.insert("type".into(), s("challengeDeclined")); challenge(&mut m, c); }
        BotEvent::ChallengeCanceled { challenge: c } => { m.insert("type".into(), s("challengeCanceled")); challenge(&mut m, c); }
    }
    Value::Object(m)
}

pub fn run(args: &[String]) -> i32 {
    quiet_panics();
    let cases = read_cases(&args[0]);
    let mut out = Out::create(&args[1]);
    for case in cases {
        let id = u64_of(&case, "id", 0);
        let doc = str_of(&case, "doc");
        let kind = str_of(&case, "kind");
        let r = guarded(|| {
            if kind == "game" {
                serde_json::from_str::<BotGameState>(&doc).map(|g| project_game(&g)).map_err(|e| e.to_string())
            } else {
                serde_json::from_str::<BotEvent>(&doc).map(|g| project_event(&g)).map_err(|e| e.to_string())
            }
        });
        let r = r.map(|x| x.map(|v| {
            // every decoded move must also be acceptable to the UCI move parser
            let mut ok = Vec::new();
            for key in ["moves", "state.moves"] {
                if let Some(list) = v.get(key).and_then(Value::as_array) {
                    for m in list { ok.push(inkayaku_uci::UciMove::from_str(m.as_str().unwrap_or("")).is_ok()); }
                }
            }
            (v, ok)
        }));
        let (st, (dec, mvok)) = match r {
            Ok(Ok(v)) => ("ok".to_string(), v),
            Ok(Err(e)) => (format!("err: {}", e), (json!({}), Vec::new())),
            Err(m) => (format!("panic: {}", m), (json!({}), Vec::new())),
        };
        out.emit(&json!({"c": id, "ev": "lichess", "kind": kind, "msg": case.get("msg").cloned().unwrap_or(json!({})), "cls": str_of(&case, "cls"), "st": st, "dec": dec, "mvok": mvok}));
    }
    0
}

SPECIFICATION Spec
VIEW View
CONSTANTS
  Keys = {1, 2, 3, 4}
  Vals = {1, 2}
  Caps = {1, 2, 3}
  PRINT = TRUE
INVARIANT Inv
INVARIANT LookupExact
PROPERTY EvictsOldest
CHECK_DEADLOCK FALSE

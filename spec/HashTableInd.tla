---------------------------- MODULE HashTableInd ----------------------------
(***************************************************************************)
(* C18 beyond the bounded model: the invariant of HashTable.tla is         *)
(* INDUCTIVE for arbitrary integer keys and values and any capacity >= 1.  *)
(* Checked symbolically by Apalache:                                       *)
(*   apalache-mc check --init=Init0   --next=IndNext --inv=IndInv  --length=0 *)
(*   apalache-mc check --init=IndInit --next=IndNext --inv=IndInv  --length=1 *)
(*   apalache-mc check --init=IndInit --next=IndNext --inv=StepInv --length=1 *)
(* IndInit is ANY state with at most N stored keys that satisfies IndInv   *)
(* (Gen: arbitrary values of bounded size), IndNext one operation with an  *)
(* arbitrary integer key / value.  Together with Init => IndInv (length 0) *)
(* this proves Inv, and the two action properties below, for every         *)
(* reachable state whose table holds at most N entries - the bound is on   *)
(* the SIZE of the table only, not on keys, values or the history.         *)
(***************************************************************************)
EXTENDS HashTable, Apalache

N == 6

IndInv == /\ cap >= 1
          /\ Inv
          /\ DOMAIN map = Range(queue)

IndInit == /\ map = Gen(N)
           /\ queue = Gen(N)
           /\ cap = Gen(1)
           /\ cap <= N
           /\ IndInv

Init0 == map = EmptyMap /\ queue = <<>> /\ cap \in 1 .. N

IndNext ==
  \/ \E k \in Int, v \in Int : Put(k, v)
  \/ \E k \in Int : Get(k)
  \/ Clear

\* one step from any invariant state (action invariant: speaks about map and map'):
\* a stored key can disappear only by clear, or as the OLDEST key of a FULL table into which a NEW key is put;
\* the values of the keys that stay are untouched unless the key itself is put
StepInv ==
  \/ map' = EmptyMap
  \/ /\ \A x \in DOMAIN map : x \notin DOMAIN map' =>
          /\ x = Head(queue)
          /\ Cardinality(DOMAIN map) = cap
          /\ \E k \in DOMAIN map' : k \notin DOMAIN map
     /\ Cardinality((DOMAIN map') \ (DOMAIN map)) <= 1
     /\ Cardinality({x \in (DOMAIN map) \cap (DOMAIN map') : map'[x] # map[x]}) <= 1
     /\ \A i \in DOMAIN queue', j \in DOMAIN queue' :
           (i < j /\ queue'[i] \in DOMAIN map /\ queue'[j] \in DOMAIN map) =>
              \E a \in DOMAIN queue, b \in DOMAIN queue : a < b /\ queue[a] = queue'[i] /\ queue[b] = queue'[j]

\* a deviation (evict before insert whenever the table is full, even if the key is present): Apalache must refute StepInv for it
\* @type: (Int -> Int, Seq(Int), Int, Int, Int) => { map: Int -> Int, queue: Seq(Int) };
BadAfterPut(m, q, c, k, v) ==
  LET full == Cardinality(DOMAIN m) >= c
      q0 == IF full THEN Tail(q) ELSE q
      m0 == IF full THEN [x \in (DOMAIN m) \ {Head(q)} |-> m[x]] ELSE m
      m1 == [x \in (DOMAIN m0) \cup {k} |-> IF x = k THEN v ELSE m0[x]]
      q1 == IF k \in DOMAIN m0 THEN q0 ELSE Append(q0, k)
  IN [map |-> m1, queue |-> q1]
BadNext == \E k \in Int, v \in Int : LET a == BadAfterPut(map, queue, cap, k, v) IN map' = a.map /\ queue' = a.queue /\ UNCHANGED cap
\* (vacuity guard: IndInit must admit tables with five entries - Apalache must refute this "invariant")
Small == Cardinality(DOMAIN map) < 5
=============================================================================

"""Engine family (C07 C09 C16).
(A) EngineMC.tla: all interleavings of a well-behaved GUI with the code-shaped search-thread model over a toy game;
    invariants, liveness and refinement to EngineObs; plus the two deviation runs in which TLC must rediscover the
    defects of the pinned tree.
(C) EngineGen.tla generates session skeletons (-simulate); they are made concrete with TLC-checked positions and
    TLC-computed move lists and executed on the in-process engine (ikv engine, hooks H5) and on the real binary.
(B) every recorded session is validated by EngineTrace.tla (raw stdout lines are parsed by UciOut.tla inside TLC).
(C->B) abort sweeps: every interruption point of a search beyond iteration 1, both abort flavours (hook H5a)."""
import json
import os
import queue
import random
import re
import subprocess
import threading
import time

from common import (SPEC, NCPU, Outcome, ToolError, build_engine_app, log, pmap, read_ndjson, run_harness, run_tlc,
                    seed, shard, validate_trace, workdir, write_evidence, write_ndjson)
from boardfam import casegen, corpus
from findings import matcher_for

START = "rnbqkbnr/pppppppp/8/8/8/8/PPPPPPPP/RNBQKBNR w KQkq - 0 1"
SHUFFLE = ["g1f3", "g8f6", "f3g1", "f6g8", "g1f3", "g8f6", "f3g1", "f6g8"]   # start position occurs three times


# --------------------------------------------------------------------------- (A) the design model
def model_check(wd, T):
    out = {"states": 0, "transitions": 0, "runs": []}
    base = open(os.path.join(SPEC, "EngineMC.cfg")).read()
    if T:
        base = base.replace("MaxGo = 3", "MaxGo = 4")
    runs = [("intended", base, False),
            ("DevNoUnmake", base.replace("DevNoUnmake = FALSE", "DevNoUnmake = TRUE"), True),
            ("DevZeroBudget", base.replace("DevZeroBudget = FALSE", "DevZeroBudget = TRUE"), True),
            ("DevStalePonder", base.replace("DevStalePonder = FALSE", "DevStalePonder = TRUE"), True),
            ("DevRootRepetition", base.replace("DevRootRepetition = FALSE", "DevRootRepetition = TRUE"), True),
            ("DevPartialIteration", base.replace("DevPartialIteration = FALSE", "DevPartialIteration = TRUE"), True)]

    def one(r):
        name, cfg, expect_violation = r
        p = os.path.join(wd, "EngineMC_%s.cfg" % name)
        open(p, "w").write(cfg)
        swd = os.path.join(wd, "mc_" + name)
        os.makedirs(swd, exist_ok=True)
        info = run_tlc(os.path.join(SPEC, "EngineMC.tla"), p, swd, workers=5, parallel_gc=True,
                       extra=["-coverage", "1"] if not expect_violation else [], timeout=3000)
        violated = "Error:" in info["out"]
        return name, expect_violation, violated, info

    for name, expect, violated, info in pmap(one, runs, 6):
        if expect and not violated:
            raise ToolError("EngineMC with %s=TRUE found no violation: the model does not explain the pinned defect" % name)
        if not expect:
            if violated or info["rc"] != 0:
                raise ToolError("EngineMC: the intended design violates a property:\n" + info["out"][-4000:])
            out["states"], out["transitions"] = info["distinct"], info["generated"]
            never = re.findall(r"<(\w+) line \d+, col \d+ to line \d+, col \d+ of module EngineMC>: 0:0", info["out"])
            if never:
                raise ToolError("EngineMC: actions never taken (vacuous): %s" % never)
        out["runs"].append({"config": name, "violation_found": violated, "distinct": info["distinct"]})
    return out


# --------------------------------------------------------------------------- (C) skeletons from the GUI model
def skeletons(wd, n, depth, sd):
    cfg = os.path.join(wd, "EngineGen.cfg")
    open(cfg, "w").write(open(os.path.join(SPEC, "EngineGen.cfg")).read().replace("Depth = 24", "Depth = %d" % depth))
    info = run_tlc(os.path.join(SPEC, "EngineGen.tla"), cfg, wd, extra=["-simulate", "num=%d" % n, "-depth", str(depth + 1), "-seed", str(sd)], timeout=600)
    out = []
    for line in info["out"].splitlines():
        if line.startswith('<<"SESSION"'):
            js = line[line.index(",") + 1:].strip()[:-2].strip()
            out.append(json.loads(json.loads(js)))
    if len(out) < n // 2:
        raise ToolError("EngineGen produced %d of %d sessions:\n%s" % (len(out), n, info["out"][-1500:]))
    return out


class Material:
    """positions with their TLC-computed move lists"""

    def __init__(self, wd, rng, T, heavy_ok=True):
        roots = corpus(wd)
        pick = rng.sample(roots, min(len(roots), 140 if T else 28))
        extra = [r for r in roots if any(t in r["tags"] for t in ("mate", "stalemate"))]
        fens = list(dict.fromkeys([START] + [r["fen"] for r in pick + extra]))
        gen, infos = casegen(wd, fens, "eg")
        self.items = []
        for f in fens:
            g = gen[f]
            if g["wf"]:
                self.items.append(g)
        self.one_move = [g for g in self.items if len(g["legal"]) == 1]
        self.terminal = [g for g in self.items if len(g["legal"]) == 0]
        self.rng = rng

    def position(self, p, v):
        rng = self.rng
        pool = self.items
        if p % 6 == 0 and self.terminal:
            pool = self.terminal
        elif p % 6 == 1 and self.one_move:
            pool = self.one_move
        g = pool[(p * 7919 + rng.randrange(len(pool))) % len(pool)]
        if v == 4 and rng.random() < 0.5:
            return {"fen": START, "moves": list(SHUFFLE), "legal": None, "illegal": []}
        moves = []
        if v == 2:
            moves = list(g["lines"][0])
        elif v == 3:
            moves = list(g["lines"][2])
        if moves:
            return {"fen": g["fen"], "moves": moves, "legal": None, "illegal": []}
        return {"fen": g["fen"], "moves": [], "legal": g["legal"], "illegal": g["illegal"]}


def limit_menu(rng, lim, nmoves):
    """concrete go parameters; every entry terminates by itself except those marked infinite"""
    clocks = [30000, 1000, 50, 1, 0]
    k = lim % 10
    if k == 0:
        return {"depth": 1}
    if k == 1:
        return {"depth": 2}
    if k == 2:
        return {"depth": 3 if nmoves is None or nmoves <= 40 else 2}
    if k == 3:
        return {"movetime": rng.choice([0, 1, 10, 100, 300])}
    if k == 4:
        return {"wtime": rng.choice(clocks), "btime": rng.choice(clocks), "winc": rng.choice(clocks[1:]), "binc": rng.choice(clocks[1:])}
    if k == 5:
        return {"wtime": rng.choice(clocks), "btime": rng.choice(clocks)}
    if k == 6:
        return {"wtime": rng.choice(clocks), "btime": rng.choice(clocks), "winc": 0, "binc": 0, "movestogo": rng.choice([1, 10, 40])}
    if k == 7:
        return {"infinite": True}
    if k == 8:
        return {"depth": rng.choice([1, 2]), "nodes": rng.choice([1, 1000, 1 << 40]), "mate": rng.choice([1, 3])}
    return {"depth": 4 if (nmoves is not None and nmoves <= 22) else 2}


def searchmoves_menu(rng, s, pos):
    legal, illegal = pos["legal"], pos["illegal"]
    if not legal:
        return []
    if s == 2:
        return [rng.choice(legal)]
    if s == 3:
        return rng.sample(legal, min(2, len(legal)))
    if s == 4:
        return list(legal)
    if s == 5:
        return [rng.choice(legal)] + (illegal[:1] or ["a1a1"])
    if s == 6 and rng.random() < 0.3:
        return illegal[:2] or ["a1a1"]
    return []


DELAYS = [0, 1, 5, 50, 200]


def concretize(script, mat, rng, binary):
    steps = []
    if rng.random() < 0.5:
        steps.append({"t": "uci"})
    if rng.random() < 0.2:
        steps.append({"t": "register", "later": rng.random() < 0.5})
    cur = {"fen": START, "moves": [], "legal": None, "illegal": []}
    i = 0
    searched = False
    while i < len(script):
        c = script[i]
        t = c["t"]
        if t == "newgame":
            steps.append({"t": "newgame"})
        elif t == "isready":
            steps.append({"t": "isready"})
        elif t == "debug":
            steps.append({"t": "debug", "on": bool(c["a"])})
        elif t == "position":
            cur = mat.position(c["a"], c["b"])
            steps.append({"t": "position", "fen": cur["fen"], "moves": cur["moves"]})
        elif t == "go":
            if not searched and rng.random() < 0.7 and (i == 0 or script[i - 1]["t"] != "position"):
                cur = mat.position(rng.randrange(100), rng.choice([1, 1, 2, 3, 4]))
                steps.append({"t": "position", "fen": cur["fen"], "moves": cur["moves"]})
            g = limit_menu(rng, c["a"], len(cur["legal"]) if cur["legal"] is not None else None)
            sm = searchmoves_menu(rng, c["b"], cur)
            if sm:
                g["searchmoves"] = sm
            g["t"] = "go"
            if i + 1 < len(script) and script[i + 1]["t"] == "stop":
                g["stop_after_ms"] = DELAYS[(script[i + 1]["a"] - 1) % len(DELAYS)]
                i += 1
            elif g.get("infinite"):
                g["stop_after_ms"] = rng.choice(DELAYS)     # an infinite search is only ever ended by stop
            steps.append(g)
            searched = True
        elif t == "probe" and not binary:
            steps.append({"t": "probe_fen"})
        i += 1
    return steps


# --------------------------------------------------------------------------- real binary sessions (driven from here)
class Proc:
    def __init__(self, app):
        self.p = subprocess.Popen([app], stdin=subprocess.PIPE, stdout=subprocess.PIPE, stderr=subprocess.DEVNULL, text=True, bufsize=1)
        self.q = queue.Queue()
        self.t = threading.Thread(target=self._read, daemon=True)
        self.t.start()

    def _read(self):
        for line in self.p.stdout:
            self.q.put(line.rstrip("\n"))
        self.q.put(None)

    def send(self, line):
        try:
            self.p.stdin.write(line + "\n")
            self.p.stdin.flush()
            return True
        except (BrokenPipeError, OSError):
            return False

    def get(self, timeout):
        try:
            return self.q.get(timeout=timeout)
        except queue.Empty:
            return "<timeout>"

    def close(self):
        try:
            self.p.kill()
        except OSError:
            pass


def go_line(g):
    parts = ["go"]
    for k in ("depth", "movetime", "wtime", "btime", "winc", "binc", "movestogo", "nodes", "mate"):
        if k in g:
            parts += [k, str(g[k])]
    if g.get("infinite"):
        parts.append("infinite")
    if g.get("searchmoves"):
        parts += ["searchmoves"] + g["searchmoves"]
    return " ".join(parts)


def limited(g):
    return any(k in g for k in ("movetime", "wtime", "btime")) or bool(g.get("infinite"))


def binary_session(app, cid, steps, selfplay=None, quit_during_search=False, watchdog=60.0):
    """returns the event list of one session on the real engine process"""
    ev = [{"c": cid, "ev": "start"}]
    pr = Proc(app)
    banner = pr.get(10.0)      # the start-up banner is free text
    dead = False

    def wait_bestmove(stop_after=None, hit_after=None, during=None, cap=400):
        nonlocal dead
        t0 = time.time()
        hit_sent = hit_after is None
        stop_sent = stop_after is None
        logged = skipped = 0
        last_msg = time.time()
        stop_at = None
        while True:
            now = time.time()
            # a search that keeps reporting long after it should have ended never answers (the process is ended with the session)
            if (stop_at is not None and now - stop_at >= watchdog) or (stop_at is None and now - t0 >= 4 * watchdog):
                ev.append({"c": cid, "ev": "timeout", "why": "no bestmove: the search keeps running long after it should have ended"})
                dead = True
                return None
            if during and now - t0 >= during.get("after_ms", 50) / 1000.0:
                ev.append({"c": cid, "ev": "in", "cmd": "position", "fen": during["fen"], "moves": during.get("moves", [])})
                pr.send("position fen %s%s" % (during["fen"], (" moves " + " ".join(during["moves"])) if during.get("moves") else ""))
                during = None
            if not hit_sent and now - t0 >= hit_after / 1000.0:
                ev.append({"c": cid, "ev": "in", "cmd": "ponderhit"})
                pr.send("ponderhit")
                hit_sent = True
            if not stop_sent and (now - t0 >= stop_after / 1000.0 or logged >= cap):
                ev.append({"c": cid, "ev": "in", "cmd": "stop"})
                pr.send("stop")
                stop_sent = True
                stop_at = time.time()
            if not stop_sent:
                nxt = min(stop_after, hit_after if not hit_sent else stop_after, during.get("after_ms", 50) if during else stop_after)
                line = pr.get(max(nxt / 1000.0 - (now - t0), 0.0002))
                if line == "<timeout>":
                    continue
            else:
                if logged >= cap and not stop_sent:
                    pass
                line = pr.get(max(watchdog - (now - last_msg), 0.001))
                if line == "<timeout>":
                    if time.time() - last_msg >= watchdog:
                        ev.append({"c": cid, "ev": "timeout", "why": "no bestmove within %d s" % watchdog})
                        dead = True
                        return None
                    continue
            if line is None:
                ev.append({"c": cid, "ev": "timeout", "why": "engine process closed its output"})
                dead = True
                return None
            last_msg = time.time()
            if line.startswith("bestmove"):
                if skipped:
                    ev.append({"c": cid, "ev": "truncated", "skipped": skipped})
                ev.append({"c": cid, "ev": "out", "raw": line})
                return line.split()
            if logged < cap:
                logged += 1
                ev.append({"c": cid, "ev": "out", "raw": line})
                if logged >= cap and not stop_sent:
                    ev.append({"c": cid, "ev": "in", "cmd": "stop"})
                    pr.send("stop")
                    stop_sent = True
                    stop_at = time.time()
            else:
                skipped += 1

    def do_go(g):
        ev.append({"c": cid, "ev": "in", "cmd": "go", "searchmoves": g.get("searchmoves", []), "limited": limited(g), "params": g})
        pr.send(go_line(g))
        nb = g.get("isready_burst", 0)
        if nb:
            # the command thread answers while the search thread reports: every line must still come out whole
            for _ in range(nb):
                ev.append({"c": cid, "ev": "in", "cmd": "isready"})
            pr.send("\n".join(["isready"] * nb))
        before = len(ev)
        r = wait_bestmove(g.get("stop_after_ms"), g.get("ponderhit_after_ms"), g.get("position_during"), cap=400 + 2 * nb)
        if nb and r is not None:
            seen = sum(1 for e in ev[before:] if e.get("raw") == "readyok")
            while seen < nb:
                line = pr.get(10.0)
                if line in ("<timeout>", None):
                    break
                ev.append({"c": cid, "ev": "out", "raw": line})
                if line == "readyok":
                    seen += 1
        return r

    for st in steps:
        if dead:
            break
        t = st["t"]
        if t == "newgame":
            ev.append({"c": cid, "ev": "in", "cmd": "ucinewgame"})
            pr.send("ucinewgame")
        elif t == "isready":
            ev.append({"c": cid, "ev": "in", "cmd": "isready"})
            pr.send("isready")
            line = pr.get(watchdog if False else 20.0)
            # readyok is answered by the GUI-side thread at once, but search output may come first
            while line not in ("<timeout>", None) and line != "readyok":
                ev.append({"c": cid, "ev": "out", "raw": line})
                line = pr.get(20.0)
            if line == "readyok":
                ev.append({"c": cid, "ev": "out", "raw": line})
        elif t in ("uci", "register"):
            later = t == "register" and st.get("later")
            cmd = "uci" if t == "uci" else ("registerlater" if later else "register")
            ev.append({"c": cid, "ev": "in", "cmd": cmd})
            pr.send("uci" if t == "uci" else ("register later" if later else "register name a b code 1 2"))
            want, last = (1, "uciok") if t == "uci" else ((0, "") if later else (2, "registration"))
            while want > 0:
                line = pr.get(20.0)
                if line in ("<timeout>", None):
                    break
                ev.append({"c": cid, "ev": "out", "raw": line})
                if line.split(" ")[0] == last:
                    want -= 1
        elif t == "debug":
            ev.append({"c": cid, "ev": "in", "cmd": "debug"})
            pr.send("debug on" if st.get("on") else "debug off")
        elif t == "position":
            ev.append({"c": cid, "ev": "in", "cmd": "position", "fen": st["fen"], "moves": st["moves"]})
            pr.send("position fen %s%s" % (st["fen"], (" moves " + " ".join(st["moves"])) if st["moves"] else ""))
        elif t == "go":
            do_go(st)
        elif t == "selfplay":
            moves = list(st.get("moves", []))
            for k in range(st["cycles"]):
                ev.append({"c": cid, "ev": "in", "cmd": "position", "fen": st["fen"], "moves": list(moves)})
                pr.send("position fen %s%s" % (st["fen"], (" moves " + " ".join(moves)) if moves else ""))
                bm = do_go(st["limits"][k % len(st["limits"])])
                if dead or not bm or len(bm) < 2 or bm[1] == "0000":
                    break
                moves.append(bm[1])
                if len(bm) >= 4 and k % 2 == 0:
                    moves.append(bm[3])     # the opponent plays the ponder move: the previous-PV continuation path
        elif t == "quit_during_search":
            ev.append({"c": cid, "ev": "in", "cmd": "go", "searchmoves": [], "limited": True, "params": {"infinite": True}})
            pr.send("go infinite")
            time.sleep(st.get("after_ms", 50) / 1000.0)
            ev.append({"c": cid, "ev": "in", "cmd": "quit"})
            pr.send("quit")
            while True:
                line = pr.get(watchdog)
                if line == "<timeout>":
                    ev.append({"c": cid, "ev": "timeout", "why": "engine neither answered nor terminated after quit during a search"})
                    dead = True
                    break
                if line is None:
                    break
                ev.append({"c": cid, "ev": "out", "raw": line})
            try:
                pr.p.wait(timeout=20)
            except subprocess.TimeoutExpired:
                ev.append({"c": cid, "ev": "timeout", "why": "engine process did not terminate after quit"})
            ev.append({"c": cid, "ev": "end"})
            pr.close()
            return ev
    ev.append({"c": cid, "ev": "end"})
    if not dead:
        pr.send("quit")
        try:
            pr.p.wait(timeout=20)
        except subprocess.TimeoutExpired:
            ev.append({"c": cid, "ev": "timeout", "why": "engine process did not terminate after quit"})
    pr.close()
    return ev


def run_binary_cases(app, cases, wd, tag, par=4):
    def one(c):
        st = c["steps"]
        return binary_session(app, c["id"], st)
    evs = pmap(one, cases, par)
    # a watchdog expiry under load is re-run once alone before it counts
    for i, c in enumerate(cases):
        if any(e["ev"] == "timeout" for e in evs[i]):
            log("binary session %d timed out; re-running it alone" % c["id"])
            evs[i] = binary_session(app, c["id"], c["steps"])
    p = os.path.join(wd, "trace_%s.ndjson" % tag)
    write_ndjson(p, [e for s in evs for e in s])
    return p


# --------------------------------------------------------------------------- the three checks
RULE = ("model: EngineMC (GUI x channel x search thread over a 6-position toy game, every interleaving, stop/quit at any moment, time-up "
        "at every poll) with invariants BoardRestored/OneAnswer/AnswerLegal, liveness go ~> bestmove and refinement to EngineObs, plus two "
        "deviation runs in which TLC must find the pinned tree's defects. sessions: skeletons generated by TLC (-simulate) from EngineGen, "
        "made concrete with TLC-checked positions, limits menu (depth, movetime incl. 0, clocks incl. zero increment / near-zero time, "
        "infinite+stop at 0..200 ms, searchmoves menus) and run in-process and on the real binary; abort sweeps enumerate every negamax "
        "node beyond iteration 1 with both abort flavours. Every message is one TLC step of EngineTrace. evaluations = go commands answered; "
        "distinct_nontrivial = distinct (position, go parameters, stop/abort schedule) searches that have a time limit, a searchmoves "
        "list, a stop/abort, or follow another search on the same engine")
ASSUME = ["the harness / driver records every message in order (in-process channel order; stdout line order)",
          "hook H5a takes the code path of a polled stop / an expired move time at the chosen node; it is only armed beyond the end of iteration 1, "
          "because the unmodified engine polls every 100,000 nodes and iteration 1 has far fewer",
          "watchdog 60 s (re-run once alone before a timeout counts); no other timing assumption",
          "EngineMC is a model: what ties it to the code is that EngineTrace holds real sessions to the same EngineObs answer rule and the abort sweeps"]


def search_key(case, step):
    return json.dumps([case.get("fen_ctx"), step], sort_keys=True)


def run_check(prop, tier, replay, plan):
    t0 = time.time()
    T = tier == "thorough"
    wd = workdir(prop)
    rng = random.Random("%s-%d" % (prop, seed()))
    outcome = Outcome(prop)
    mc = {"states": 0, "transitions": 0, "runs": []}
    inproc, binary, sweeps = [], [], []
    app = None
    if replay:
        c = json.load(open(replay))
        c["id"] = 1
        (binary if c.get("kind") == "binary" else sweeps if c.get("kind") == "sweep" else inproc).append(c)
        if binary:
            app = build_engine_app()
    else:
        mc = model_check(wd, T)
        app = build_engine_app()
        mat = Material(wd, rng, T)
        inproc, binary, sweeps = plan(wd, rng, T, mat)
    log("%s: %d in-process sessions, %d binary sessions, %d abort sweeps" % (prop, len(inproc), len(binary), len(sweeps)))
    traces = []
    # in-process sessions: 4 harness processes at a time (timing-sensitive), sweeps: all cores
    ish = shard(inproc, 4, lambda c: len(c["steps"]))
    traces += pmap(lambda i: run_harness("engine", ish[i], wd, "ip%d" % i, prop, timeout=3000), list(range(len(ish))), 4)
    ssh = shard(sweeps, NCPU, lambda c: 1)
    traces += pmap(lambda i: run_harness("engine", ssh[i], wd, "sw%d" % i, prop, timeout=3000), list(range(len(ssh))), NCPU)
    if binary:
        traces.append(run_binary_cases(app, binary, wd, "bin"))
    # split traces into session-aligned shards for TLC
    sessions = []
    for tr in traces:
        cur = []
        for e in read_ndjson(tr):
            if e["ev"] == "start" and cur:
                sessions.append(cur)
                cur = []
            cur.append(e)
        if cur:
            sessions.append(cur)
    vsh = shard([{"id": i, "evs": s} for i, s in enumerate(sessions)], NCPU * 2, lambda c: len(c["evs"]))

    def val(i):
        p = os.path.join(wd, "v%d.ndjson" % i)
        write_ndjson(p, [e for s in vsh[i] for e in s["evs"]])
        res, info = validate_trace("EngineTrace.tla", "EngineTrace.cfg", p, wd, "v%d" % i)
        return p, res, info

    results = pmap(val, list(range(len(vsh))))
    by_id = {}
    for c in inproc + binary:
        by_id[c["id"]] = c
    sweep_by_id = {c["id"]: c for c in sweeps}
    states, trans = mc["states"], mc["transitions"]
    answered = 0
    nt = set()
    bad_sessions = set()
    samples = []
    nsched = 0
    for p, res, info in results:
        states += info["distinct"]
        trans += info["generated"]
        evs = read_ndjson(p)
        lastgo = {}
        lastpos = {}
        for idx, e in enumerate(evs, 1):
            if e["ev"] == "start" and "sweep" in e:
                nsched += 1
            if e["ev"] == "in" and e.get("cmd") == "position":
                lastpos[e["c"]] = (e["fen"], tuple(e["moves"]))
            if e["ev"] == "in" and e.get("cmd") == "go":
                lastgo[e["c"]] = json.dumps(e.get("params", {}), sort_keys=True)
            is_best = (e["ev"] == "out" and ((e.get("m", {}).get("kind") == "bestmove") or e.get("raw", "").startswith("bestmove")))
            if is_best:
                answered += 1
                if idx in res["ntr"]:
                    nt.add((lastpos.get(e["c"]), lastgo.get(e["c"])))
        for note in res["bad"]:
            cid = note["c"]
            base = (sweep_by_id.get(cid // 1000000) if cid >= 1000000 else by_id.get(cid)) or {"id": cid}
            case = dict(base)
            if cid >= 1000000 and "steps" in base:      # one schedule of a sweep: replay just that schedule
                sw = [e for e in evs if e["c"] == cid and e["ev"] == "start"]
                if sw and "sweep" in sw[0]:
                    case = {"kind": "inproc", "family": "engine", "steps": [
                        {"t": "position", "fen": base["fen"], "moves": base.get("moves", [])},
                        dict(base["steps"][0], t="go", abort_at=sw[0]["sweep"]["at"], abort_kind=sw[0]["sweep"]["kind"]),
                        {"t": "probe_fen"}, {"t": "go", "depth": 1}, {"t": "fresh"}]}
                    case["steps"][1].pop("max", None)
                    case["steps"][1].pop("seed", None)
            bad_sessions.add(cid)
            outcome.add(case, note, matcher_for(prop))
        if len(samples) < 3 and evs:
            samples.append({"session_events": [({k: v for k, v in e.items() if k != "m"} if "m" not in e else {"ev": "out", "m": {k: e["m"][k] for k in ("kind", "pv", "best", "ponder", "score")}}) for e in evs[:12]]})
    extra = sum(1 for _c, n in outcome.other if str(n.get("p", "")).startswith("X-"))
    cov = {"states": states, "transitions": trans, "traces_validated_against_impl": len(sessions) - len(bad_sessions),
           "extra_rule_mismatches_beyond_listed_properties": extra,
           "model": mc, "sessions": len(sessions), "abort_schedules": nsched,
           "evaluations": answered, "distinct_nontrivial": len(nt), "rule": RULE, "samples": samples,
           "exhaustive": False,
           "checker_cmd": "tlc -workers 5 -coverage 1 -config spec/EngineMC.cfg spec/EngineMC.tla (3 configurations); java ... tlc2.TLC -workers 1 -config spec/EngineTrace.cfg spec/EngineTrace.tla per trace shard"}
    rc = outcome.finish()
    level = "fault_enumeration" if prop == "C09" else "model_checking"
    if level == "fault_enumeration":
        cov["evaluations"] = max(answered, 1)
    write_evidence(prop, tier, level, cov, time.time() - t0, len(outcome.violations), ASSUME)
    return rc


def sessions_from_skeletons(wd, rng, mat, n, depth, binary):
    out = []
    for sk in skeletons(wd, n, depth, rng.randrange(1 << 30)):
        steps = concretize(sk, mat, rng, binary)
        if any(s["t"] == "go" for s in steps):
            out.append(steps)
    return out


def mk(cases, kind, steps, **kw):
    c = {"id": len(cases) + 1 + (100000 if kind == "binary" else 0), "family": "engine", "kind": kind, "steps": steps}
    c.update(kw)
    cases.append(c)


def plan_c07(wd, rng, T, mat):
    inproc, binary, sweeps = [], [], []
    for steps in sessions_from_skeletons(wd, rng, mat, 240 if T else 14, 24, False):
        mk(inproc, "inproc", steps)
    for steps in sessions_from_skeletons(wd, rng, mat, 100 if T else 6, 16, True):
        mk(binary, "binary", steps)
    # directed: every limit kind on positions with one legal move, terminal positions, and a threefold root
    specials = [(g["fen"], []) for g in (mat.one_move + mat.terminal)[: (40 if T else 5)]] + [(START, list(SHUFFLE))]
    # ... and roots at and beyond the fifty-move limit (the game is a draw by rule there, the engine is still asked for a move)
    def clocked(fen, h):
        f = fen.split(" ")
        return " ".join(f[:4] + [str(h), str(max(int(f[5]), h // 2 + 1))])
    late = [g for g in mat.items if len(g["legal"]) >= 2]
    for g in rng.sample(late, min(len(late), 12 if T else 3)):
        specials.append((clocked(g["fen"], rng.choice([99, 100, 100, 101, 149, 150, 400])), []))
    specials.append(("rnbqkbnr/pppppppp/8/8/8/8/PPPPPPPP/RNBQKBNR w KQkq - 98 60", ["g1f3", "g8f6"]))
    for fen, moves in specials:
        steps = [{"t": "position", "fen": fen, "moves": moves}]
        for g in ({"depth": 1}, {"depth": 3}, {"movetime": 0}, {"movetime": 30}, {"wtime": 1000, "btime": 1000, "winc": 0, "binc": 0},
                  {"wtime": 1, "btime": 1}, {"wtime": 0, "btime": 0, "winc": 0, "binc": 0}, {"infinite": True, "stop_after_ms": 0},
                  {"infinite": True, "stop_after_ms": 30}):
            steps.append(dict(g, t="go"))
        mk(inproc, "inproc", steps)
    # thousands of near-zero-time searches on one engine, after a deeper one: whatever is carried from go to go (node counters,
    # tables, stored pv) must never cost an answer
    # (the engine polls its flags by node count: the burst runs until several multiples of the polling interval have gone by)
    rich = [g for g in mat.items if len(g["legal"]) >= 15]
    bpos = [{"fen": START, "moves": []}] + [{"fen": g["fen"], "moves": []} for g in rng.sample(rich, min(2, len(rich)))]
    for gop in ({"wtime": 60000, "btime": 60000, "winc": 0, "binc": 0}, {"movetime": 0}) if T else ({"wtime": 60000, "btime": 60000, "winc": 0, "binc": 0},):
        mk(inproc, "inproc", [{"t": "position", "fen": START, "moves": []}, {"t": "go", "depth": 4},
                              {"t": "burst", "n": 400000 if T else 40000, "nodes": 2100000 if T else 330000, "positions": bpos, "go": gop}])
    mk(binary, "binary", [{"t": "position", "fen": START, "moves": list(SHUFFLE)}, {"t": "go", "depth": 2}, {"t": "go", "movetime": 0},
                           {"t": "go", "wtime": 50, "btime": 50, "winc": 0, "binc": 0}])
    # debug mode switches on extra reporting code (statistics of the search so far): quiet positions, in which some of those
    # statistics are still empty after the first iteration, and ordinary ones, every limit kind
    quiet = [(START, []), (START, ["e2e4"]), ("4k3/8/8/8/8/8/4P3/4K3 w - - 0 1", []), ("4k3/4p3/8/8/8/8/8/4K3 b - - 0 1", [])]
    quiet += [(g["fen"], []) for g in rng.sample(mat.items, min(len(mat.items), 6 if T else 2))]
    for fen, moves in quiet:
        steps = [{"t": "debug", "on": True}, {"t": "position", "fen": fen, "moves": moves}]
        for g in ({"depth": 1}, {"depth": 2}, {"movetime": 20}, {"wtime": 300, "btime": 300, "winc": 0, "binc": 0}, {"infinite": True, "stop_after_ms": 20}):
            steps.append(dict(g, t="go"))
        mk(inproc, "inproc", steps)
        mk(binary, "binary", [s for s in steps])
    return inproc, binary, sweeps


def heavy_positions(mat):
    return [g for g in mat.items if len(g["legal"]) >= 30]


def changing_best(wd, cands):
    """positions whose reported best move changes from one iteration to the next in an undisturbed `go depth 3` (a pre-scan through the
    harness; it only orders the candidates - interrupting such an iteration is where a half-finished result can differ from the
    completed one)"""
    cases = [{"id": i + 1, "family": "engine", "kind": "inproc", "steps": [{"t": "position", "fen": g["fen"], "moves": g.get("moves", [])}, {"t": "go", "depth": 3}]}
             for i, g in enumerate(cands)]
    tr = run_harness("engine", cases, wd, "prescan", "C16")
    firsts = {}
    for e in read_ndjson(tr):
        if e.get("ev") == "out" and isinstance(e.get("m"), dict) and e["m"].get("kind") == "info" and e["m"].get("pv"):
            firsts.setdefault(e["c"], []).append(e["m"]["pv"][0])
    return [g for i, g in enumerate(cands) if len(set(firsts.get(i + 1, []))) > 1]


def plan_c09(wd, rng, T, mat, lite=False):
    inproc, binary, sweeps = [], [], []
    sparse = [g for g in mat.items if 3 <= len(g["legal"]) <= 26]
    # (lite, for C16: more positions, fewer abort points each - what matters there is an iteration in which the best root move changes)
    nsw = (24 if T else 2) if not lite else (40 if T else 16)
    wide = [g for g in mat.items if 3 <= len(g["legal"]) <= 45] if lite else sparse
    pool = rng.sample(wide, min(len(wide), 4 * nsw))
    if lite:
        # ... and the positions one legal move further on (the legal moves are TLC's)
        pool = pool + [{"fen": g["fen"], "moves": [m], "legal": g["legal"]} for g in pool if len(g["legal"]) <= 32 for m in rng.sample(g["legal"], min(3, len(g["legal"])))]
    moving = changing_best(wd, pool)
    chosen = (moving + [g for g in pool if g not in moving])[:nsw]
    log("abort sweeps: %d of %d candidate positions change their best move between iterations; %d sweeps" % (len(moving), len(pool), len(chosen)))
    for g in chosen:
        sweeps.append({"id": len(sweeps) + 1, "family": "engine", "kind": "sweep", "fen": g["fen"], "moves": g.get("moves", []),
                       "steps": [{"t": "abort_sweep", "depth": 3, "max": (6000 if T else 500) if not lite else (1000 if T else 120), "seed": rng.randrange(1 << 30)}]})
    if T:
        for g in rng.sample(sparse, min(len(sparse), 3)):
            sm = rng.sample(g["legal"], min(2, len(g["legal"])))
            sweeps.append({"id": len(sweeps) + 1, "family": "engine", "kind": "sweep", "fen": g["fen"], "moves": [],
                           "steps": [{"t": "abort_sweep", "depth": 4, "searchmoves": sm, "max": 3000, "seed": rng.randrange(1 << 30)}]})
    # real interruptions, no hook: stop / movetime expiry on positions that need > 100,000 nodes per iteration
    heavy = heavy_positions(mat) or mat.items
    for g in rng.sample(heavy, min(len(heavy), 24 if T else 3)):
        steps = [{"t": "position", "fen": g["fen"], "moves": []}]
        for _ in range(3):      # consecutive interrupted searches
            steps.append(rng.choice([{"t": "go", "infinite": True, "stop_after_ms": rng.choice([1, 5, 20, 100, 300])},
                                     {"t": "go", "movetime": rng.choice([20, 100])}]))
        steps += [{"t": "probe_fen"}, {"t": "go", "depth": 1}, {"t": "fresh"}]
        mk(inproc, "inproc", steps)
        bsteps = [s for s in steps if s["t"] in ("position", "go")]
        mk(binary, "binary", bsteps)
    for g in rng.sample(heavy, min(len(heavy), 10 if T else 3)):
        mk(binary, "binary", [{"t": "position", "fen": g["fen"], "moves": []}, {"t": "quit_during_search", "after_ms": rng.choice([5, 60, 400])}])
    # a position command that arrives while the search is running is dropped by the engine: after the interruption it still holds its own
    for g in rng.sample(heavy, min(len(heavy), 8 if T else 2)):
        other = rng.choice([x for x in mat.items if x["fen"] != g["fen"]])
        steps = [{"t": "position", "fen": g["fen"], "moves": []},
                 {"t": "go", "infinite": True, "position_during": {"after_ms": rng.choice([20, 80]), "fen": other["fen"], "moves": []}, "stop_after_ms": rng.choice([200, 400])},
                 {"t": "probe_fen"}, {"t": "go", "depth": 1}, {"t": "fresh"},
                 {"t": "go", "infinite": True, "stop_after_ms": 100}, {"t": "probe_fen"}, {"t": "go", "depth": 1}, {"t": "fresh"}]
        mk(inproc, "inproc", steps)
        mk(binary, "binary", [s for s in steps if s["t"] in ("position", "go")])
    return inproc, binary, sweeps


def plan_c16(wd, rng, T, mat):
    inproc, binary, sweeps = [], [], []
    for steps in sessions_from_skeletons(wd, rng, mat, 120 if T else 8, 30, True):
        mk(binary, "binary", steps)
    for steps in sessions_from_skeletons(wd, rng, mat, 160 if T else 8, 30, False):
        mk(inproc, "inproc", steps)
    # whole games on one process: state carried between searches (previous PV continuation, killer table, metrics)
    for k in range(30 if T else 3):
        g = rng.choice(mat.items)
        lim = [{"depth": rng.choice([1, 2, 3])}, {"movetime": rng.choice([5, 30])}, {"depth": 2},
               {"wtime": 200, "btime": 200, "winc": 10, "binc": 10}, {"infinite": True, "stop_after_ms": rng.choice([0, 20])}]
        rng.shuffle(lim)
        pre = [{"t": "newgame"}] if k % 2 == 0 else []
        if k % 3 == 0:
            pre.append({"t": "debug", "on": True})
        mk(binary, "binary", pre + [{"t": "selfplay", "fen": g["fen"] if k % 2 else START, "moves": [], "cycles": 20 if T else 8, "limits": lim}])
    term = mat.terminal[:3]
    for g in term:
        # a search with a PV, then a move-less root on the same process: the ponder move must not be left over
        mk(binary, "binary", [{"t": "position", "fen": START, "moves": []}, {"t": "go", "depth": 3},
                               {"t": "position", "fen": g["fen"], "moves": []}, {"t": "go", "depth": 2}])
    # replies of the command thread while the search thread is reporting (real process): bursts of isready behind every go
    for k in range(6 if T else 2):
        g = rng.choice(mat.items)
        steps = [{"t": "position", "fen": g["fen"] if k % 2 else START, "moves": []}]
        for _ in range(40 if T else 20):
            steps.append({"t": "go", "depth": rng.choice([3, 4]), "isready_burst": 300})
        mk(binary, "binary", steps)
    # a ponderhit in the middle of a search (the engine does not ponder; what it reports must not change character: time, nodes, depth go on)
    heavy = heavy_positions(mat) or mat.items
    for g in rng.sample(heavy, min(len(heavy), 10 if T else 3)):
        steps = [{"t": "position", "fen": g["fen"], "moves": []},
                 {"t": "go", "infinite": True, "ponderhit_after_ms": rng.choice([60, 150, 300]), "stop_after_ms": rng.choice([500, 800])},
                 {"t": "go", "depth": 2}]
        mk(binary, "binary", steps)
        mk(inproc, "inproc", steps)
    # interrupted searches: the answer must still be the head of the last reported pv, wherever the interruption falls
    # (every node of the swept searches through hook H5a; real stop / move time expiry on positions with > 100,000 nodes per iteration)
    ip2, bin2, sw2 = plan_c09(wd, rng, T, mat, lite=True)
    for c in ip2:
        mk(inproc, "inproc", c["steps"])
    for c in bin2:
        mk(binary, "binary", c["steps"])
    return inproc, binary, sw2


def check_c07(tier, replay=None):
    return run_check("C07", tier, replay, plan_c07)


def check_c09(tier, replay=None):
    return run_check("C09", tier, replay, plan_c09)


def check_c16(tier, replay=None):
    return run_check("C16", tier, replay, plan_c16)

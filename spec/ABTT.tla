-------------------------------- MODULE ABTT --------------------------------
(***************************************************************************)
(* Design-level model of the engine's tree search: fail-soft negamax with  *)
(* alpha-beta windows and a transposition table, as search_negamax of      *)
(* engine_core/src/engine/search.rs does it (one action per decision the   *)
(* code takes at a node: probe, horizon, child loop, store).               *)
(*                                                                         *)
(* The game is abstract: a levelled directed acyclic graph.  A node of     *)
(* level k < D has an ordered list of children among the nodes of level    *)
(* k+1 (several parents may share a child: a transposition; the order is   *)
(* the move order, which killer / pv / table moves may permute at will);   *)
(* a node without children is terminal (mate or stalemate: its value is    *)
(* not stored in the table, as the code states for mate scores); the nodes *)
(* of level D are the horizon: their value is the capture resolution,      *)
(* which the code computes fail-hard (the result is clamped into the       *)
(* window) or, for quiet horizon nodes, the static value (not clamped).    *)
(*                                                                         *)
(* TLC enumerates EVERY game of the configured shape as an initial state   *)
(* and evaluates the invariant Exact in it: the value the windowed search  *)
(* with the table returns at the root equals the plain minimax value, and  *)
(* every entry left in the table is a true bound of its node.              *)
(*                                                                         *)
(* Deviation constants switch on the mistakes the conformance checks are   *)
(* there to catch in the code; with any of them TLC must find a game on    *)
(* which Exact fails (checked by the registered commands: a deviation that *)
(* TLC cannot tell from the intended design would mean the model is too    *)
(* small to say anything).                                                 *)
(***************************************************************************)
EXTENDS Integers, Sequences, FiniteSets, TLC

CONSTANTS
  W1, W2, W3,        \* number of nodes on levels 1, 2, 3 (level 0 is the root alone; level 3 is the horizon)
  VMax,              \* horizon nodes take the values -VMax .. VMax (from the mover's point of view)
  RootKids,          \* 0: every order of root children; else only the order with this decimal code, e.g. 21 = <<2, 1>> (one TLC process per
                     \* root order: the games are enumerated serially)
  Iter,              \* TRUE: iterative deepening 1 .. 3 on one table (inner nodes then also have a static value); FALSE: one depth-3 search
  Dev                \* "none" or the name of a deviation

Vals == -VMax .. VMax
Mate == 9                             \* |value| >= Mate - 3 is a mate score: never stored
IsMate(v) == v >= Mate - 3 \/ v <= -(Mate - 3)
Inf == 20

Node(k, i) == <<k, i>>
Level(k) == IF k = 0 THEN {Node(0, 1)} ELSE IF k = 1 THEN {Node(1, i) : i \in 1 .. W1}
            ELSE IF k = 2 THEN {Node(2, i) : i \in 1 .. W2} ELSE {Node(3, i) : i \in 1 .. W3}
Nodes == Level(0) \cup Level(1) \cup Level(2) \cup Level(3)
Root == Node(0, 1)

\* ordered child lists without repetition over a set S (including the empty list: a terminal node)
RECURSIVE Orders(_)
Orders(S) == {<<>>} \cup UNION {{<<x>> \o t : t \in Orders(S \ {x})} : x \in S}

RECURSIVE Code(_)
Code(o) == IF o = <<>> THEN 0 ELSE Code(SubSeq(o, 1, Len(o) - 1)) * 10 + o[Len(o)]

VARIABLES
  k0,       \* the root's ordered children (indices into level 1)
  k1, k2,   \* per node of level 1 / 2: its ordered children (indices into the next level)
  t1, t2,   \* value of a node of level 1 / 2 if it is terminal (0 = stalemate, -Mate = mated)
  v3, h3,   \* horizon nodes: value, and whether it comes from the fail-hard capture resolution
  s1, s2    \* static value of a node of level 1 / 2 (looked at when an earlier iteration has its horizon there)
vars == <<k0, k1, k2, t1, t2, v3, h3, s1, s2>>

Idx(k) == IF k = 1 THEN 1 .. W1 ELSE IF k = 2 THEN 1 .. W2 ELSE 1 .. W3
kidsIdx(n) == IF n[1] = 0 THEN k0 ELSE IF n[1] = 1 THEN k1[n[2]] ELSE IF n[1] = 2 THEN k2[n[2]] ELSE <<>>
kids == [n \in Nodes |-> [i \in 1 .. Len(kidsIdx(n)) |-> Node(n[1] + 1, kidsIdx(n)[i])]]
val == [n \in Nodes |-> IF n[1] = 3 THEN v3[n[2]] ELSE IF n[1] = 1 THEN t1[n[2]] ELSE IF n[1] = 2 THEN t2[n[2]] ELSE 0]
static == [n \in Nodes |-> IF n[1] = 1 THEN s1[n[2]] ELSE IF n[1] = 2 THEN s2[n[2]] ELSE 0]
\* value of a node the search treats as its horizon: terminal value if there is no move, else capture resolution / static value
HVal(n) == IF n[1] = 3 THEN val[n] ELSE IF kids[n] = <<>> THEN val[n] ELSE static[n]
hard == [n \in Nodes |-> n[1] = 3 /\ h3[n[2]]]

Max(a, b) == IF a >= b THEN a ELSE b
Min(a, b) == IF a <= b THEN a ELSE b
Clamp(v, lo, hi) == IF v <= lo THEN lo ELSE IF v >= hi THEN hi ELSE v

(***************************************************************************)
(* The reference: plain minimax, no window, no table.                      *)
(***************************************************************************)
RECURSIVE MMd(_, _)
MMd(n, r) ==
  IF r = 0 THEN HVal(n)
  ELSE IF kids[n] = <<>> THEN val[n]
  ELSE LET vs == {-MMd(kids[n][i], r - 1) : i \in 1 .. Len(kids[n])}
       IN CHOOSE v \in vs : \A w \in vs : w <= v
MM(n) == MMd(n, 3 - n[1])

(***************************************************************************)
(* The search as the code does it.  tt: node -> entry; an entry is         *)
(* [d |-> draft, v |-> value, t |-> "exact" | "lower" | "upper"] or None.  *)
(***************************************************************************)
None == [d |-> -1, v |-> 0, t |-> "none"]

R == INSTANCE TTRule

RECURSIVE NM(_, _, _, _, _), Loop(_, _, _, _, _, _, _, _)
\* returns [v, tt]
NM(n, r, a0, b0, tt) ==
  LET e == tt[n]
      pr == R!Probe(Dev, e.t, e.d, e.v, r, a0, b0)
  IN IF pr.ret # "on" THEN [v |-> e.v, tt |-> tt]
     ELSE IF r = 0 THEN [v |-> IF hard[n] THEN Clamp(HVal(n), pr.alpha, pr.beta) ELSE HVal(n), tt |-> tt]
     ELSE IF kids[n] = <<>> THEN [v |-> val[n], tt |-> tt]
     ELSE Loop(n, r, 1, pr.alpha, pr.beta, -Inf, tt, a0)

\* the child loop; at its end the store
Loop(n, r, i, alpha, beta, best, tt, a0) ==
  IF i > Len(kids[n]) \/ alpha >= beta
  THEN LET ty == R!StoreType(Dev, best, a0, alpha, beta)
       IN [v |-> best,
           tt |-> IF IsMate(best) /\ Dev # "StoreMates" THEN tt ELSE [tt EXCEPT ![n] = [d |-> r, v |-> best, t |-> ty]]]
  ELSE LET c == NM(kids[n][i], r - 1, -beta, -alpha, tt)
           v == -c.v
           nb == Max(best, v)
       IN Loop(n, r, i + 1, Max(alpha, nb), beta, nb, c.tt, a0)

EmptyTT == [n \in Nodes |-> None]

\* iterative deepening as best_move does it: the table lives through the iterations of one go
RECURSIVE Deepen(_, _, _)
Deepen(d, maxd, tt) ==
  LET res == NM(Root, d, -Inf, Inf, tt)
  IN IF d = maxd THEN res ELSE Deepen(d + 1, maxd, res.tt)

(***************************************************************************)
(* Every game of the shape is an initial state.                            *)
(***************************************************************************)
TermVals == {0, -Mate}
Init ==
  /\ k0 \in {o \in Orders(Idx(1)) \ {<<>>} : RootKids = 0 \/ Code(o) = RootKids}
  /\ k1 \in [Idx(1) -> Orders(Idx(2))]
  /\ k2 \in [Idx(2) -> Orders(Idx(3))]
  \* (a value that is never looked at is fixed: no symmetric copies of one game)
  /\ t1 \in [Idx(1) -> TermVals] /\ \A i \in Idx(1) : k1[i] # <<>> => t1[i] = 0
  /\ t2 \in [Idx(2) -> TermVals] /\ \A i \in Idx(2) : k2[i] # <<>> => t2[i] = 0
  /\ v3 \in [Idx(3) -> Vals]
  /\ h3 \in [Idx(3) -> BOOLEAN]
  /\ s1 \in [Idx(1) -> Vals] /\ \A i \in Idx(1) : (~Iter \/ k1[i] = <<>>) => s1[i] = 0
  /\ s2 \in [Idx(2) -> Vals] /\ \A i \in Idx(2) : (~Iter \/ k2[i] = <<>>) => s2[i] = 0

Next == UNCHANGED vars
Spec == Init /\ [][Next]_vars

\* depth-3 search of the root, table empty at the start (after the iterations to depth 1 and 2 on the same table if Iter)
Result == IF Iter THEN Deepen(1, 3, EmptyTT) ELSE NM(Root, 3, -Inf, Inf, EmptyTT)

Exact == /\ Result.v = MM(Root)
         /\ Iter => /\ Deepen(1, 1, EmptyTT).v = MMd(Root, 1)
                     /\ Deepen(1, 2, EmptyTT).v = MMd(Root, 2)

\* what is left in the table is true: the entry of a node bounds (or equals) the node's minimax value
TableSound ==
  LET tt == Result.tt
  IN \A n \in Nodes : tt[n].t # "none" =>
       LET m == MMd(n, tt[n].d) IN
         CASE tt[n].t = "exact" -> tt[n].v = m
           [] tt[n].t = "lower" -> tt[n].v <= m
           [] tt[n].t = "upper" -> tt[n].v >= m
=============================================================================

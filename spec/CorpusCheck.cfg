INIT Init
NEXT Next

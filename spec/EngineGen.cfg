SPECIFICATION Spec
CONSTANTS
  Depth = 24
  NPos = 12
  NVar = 4
  NLim = 20
  NSm = 6
  NDelay = 5
INVARIANT Emit
CHECK_DEADLOCK FALSE

INIT Init
NEXT Next

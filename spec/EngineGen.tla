------------------------------ MODULE EngineGen ------------------------------
(***************************************************************************)
(* The GUI side of the UCI protocol as a generator of session skeletons    *)
(* (spec -> implementation direction).  A well-behaved GUI sends position  *)
(* and go only while no search is pending; stop, isready and debug at any  *)
(* time.  Parameters are abstract menu indices; /verif/lib/enginefam.py    *)
(* maps them to concrete positions (TLC-checked corpus), limits and        *)
(* searchmoves lists (from CaseGen.tla).  Run with -simulate; every        *)
(* behaviour that reaches Len(script) = Depth is printed once.             *)
(***************************************************************************)
EXTENDS Integers, Sequences, TLC, Json

CONSTANTS Depth, NPos, NVar, NLim, NSm, NDelay

VARIABLES script, st, searches
vars == <<script, st, searches>>

Cmd(t, a, b) == [t |-> t, a |-> a, b |-> b]
Last == IF script = <<>> THEN "none" ELSE script[Len(script)].t

Init == script = <<>> /\ st = "idle" /\ searches = 0

NewGame == st = "idle" /\ Last # "newgame" /\ script' = Append(script, Cmd("newgame", 0, 0)) /\ UNCHANGED <<st, searches>>
Position == st = "idle" /\ Last # "position"
            /\ \E p \in 1 .. NPos, v \in 1 .. NVar : script' = Append(script, Cmd("position", p, v))
            /\ UNCHANGED <<st, searches>>
Go == st = "idle"
      /\ \E lim \in 1 .. NLim, s \in 1 .. NSm : script' = Append(script, Cmd("go", lim, s))
      /\ st' = "waiting" /\ searches' = searches + 1
Stop == st = "waiting" /\ Last = "go"
        /\ \E d \in 1 .. NDelay : script' = Append(script, Cmd("stop", d, 0))
        /\ UNCHANGED <<st, searches>>
Await == st = "waiting" /\ script' = Append(script, Cmd("await", 0, 0)) /\ st' = "idle" /\ UNCHANGED searches
IsReady == Last \notin {"isready", "go"} /\ script' = Append(script, Cmd("isready", 0, 0)) /\ UNCHANGED <<st, searches>>
Debug == st = "idle" /\ Last # "debug" /\ \E on \in {0, 1} : script' = Append(script, Cmd("debug", on, 0)) /\ UNCHANGED <<st, searches>>
Probe == st = "idle" /\ searches > 0 /\ Last = "await"
         /\ script' = Append(script, Cmd("probe", 0, 0)) /\ UNCHANGED <<st, searches>>

\* weights: searches are what matters, so Go/Await dominate the disjunction
\* the last step is deterministic, so that exactly one state per behaviour satisfies the print condition
Finish == Len(script) = Depth - 1 /\ script' = Append(script, Cmd("end", 0, 0)) /\ UNCHANGED <<st, searches>>

Next == \/ Finish
        \/ /\ Len(script) < Depth - 1
           /\ \/ NewGame \/ Position \/ Position \/ Go \/ Go \/ Go \/ Stop \/ Await \/ Await \/ IsReady \/ Debug \/ Probe

Spec == Init /\ [][Next]_vars

Emit == Last # "end" \/ PrintT(<<"SESSION", ToJson(script)>>)
=============================================================================

"""property id -> check function(tier, replay) for everything that is not a plain board-trace check"""
import enginefam
import tablefam
import tablesfam
import textfam

CHECKS = {
    "C04": tablesfam.check,
    "C07": enginefam.check_c07,
    "C09": enginefam.check_c09,
    "C12": textfam.check_c12,
    "C15": textfam.check_c15,
    "C16": enginefam.check_c16,
    "C17": textfam.check_c17,
    "C18": tablefam.check,
    "C19": textfam.check_c19,
}

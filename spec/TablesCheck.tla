----------------------------- MODULE TablesCheck -----------------------------
(* One model state per table cell dumped from the implementation; the invariant compares the cell with  *)
(* AttackTables.  File kinds (IOEnv.MODE): "slider" (header + one row per subset of the mask, numbered   *)
(* so that TLC itself verifies the enumeration is complete), "leaper", "random" (unmasked occupancies). *)
EXTENDS AttackTables, TLC, Json, IOUtils

Rows == ndJsonDeserialize(IOEnv.FILE)
Mode == IOEnv.MODE
VARIABLE i

Bit(n, j) == (n \div (2 ^ j)) % 2 = 1
SubsetNo(maskSeq, n) == {NameSq[maskSeq[j]] : j \in {x \in 1 .. Len(maskSeq) : Bit(n, x - 1)}}

Hdr == Rows[1]
HeaderOk ==
  LET s == NameSq[Hdr.sq]
      mask == SqSet(Hdr.mask)
  IN /\ RelevantMask(Hdr.kind, s) \subseteq mask          \* all subsets of the mask cover all 2^64 occupancies
     /\ s \notin mask
     /\ Len(Rows) = Hdr.rows + 1 /\ Hdr.rows = 2 ^ Len(Hdr.mask)
     /\ \A a, b \in 1 .. Len(Hdr.mask) : a < b => NameSq[Hdr.mask[a]] < NameSq[Hdr.mask[b]]

SliderCell(r) ==
  LET s == NameSq[Hdr.sq]
      sub == SubsetNo(Hdr.mask, r.n)
  IN /\ r.st = "ok"
     /\ r.idx < Hdr.len
     /\ SqSet(r.sub) = sub
     /\ SqSet(r.att) = SlideAttack(Hdr.kind, s, sub)

LeaperCell(r) == r.st = "ok" /\ SqSet(r.att) = LeaperAttack(r.kind, NameSq[r.sq])
RandomCell(r) == r.st = "ok" /\ SqSet(r.att) = SlideAttack(r.kind, NameSq[r.sq], SqSet(r.occ))

Init == i \in 1 .. Len(Rows)
Next == UNCHANGED i

CellOk ==
  \/ CASE Mode = "slider" -> IF i = 1 THEN HeaderOk ELSE SliderCell(Rows[i]) /\ Rows[i].n = i - 2
       [] Mode = "leaper" -> LeaperCell(Rows[i])
       [] Mode = "random" -> RandomCell(Rows[i])
  \/ PrintT(<<"BADCELL", i, Rows[i]>>) /\ FALSE
=============================================================================

---- MODULE SrProbe ----
EXTENDS SearchRef, Json, IOUtils, TLC
Rec == ndJsonDeserialize(IOEnv.TRACE)
E == Rec[1]
T == Table(E.evals)
P == PosOfFen(E.fen)
ASSUME PrintT(<<"t0", JavaTime>>)
ASSUME PrintT(<<"legal", Cardinality(Legal(P)), JavaTime>>)
ASSUME PrintT(<<"d1", RootPlain(T, P, 1, {}), JavaTime>>)
ASSUME PrintT(<<"d2", RootPlain(T, P, 2, {}), JavaTime>>)
ASSUME PrintT(<<"ab3", RootAB(T, P, 3, {}), JavaTime>>)
ASSUME PrintT(<<"d3", RootPlain(T, P, 3, {}), JavaTime>>)
VARIABLE v
Init == v = 0
Next == v' = v
====

----------------------------- MODULE SelfTest2 -----------------------------
(* Ground truth for San.tla and self-consistency of SearchRef.tla (none of it comes from inkayaku):       *)
(*  - SAN texts of known moves (castling, disambiguation by file / rank / both, promotion, check, mate,    *)
(*    stalemating move without suffix, e.p.);                                                              *)
(*  - the alpha-beta forms of the reference value agree with the plain forms (NMAB = NM, QAB = QFull) on   *)
(*    small positions, with a stand-in evaluation (material) tabulated over the reference tree's own keys; *)
(*  - the reference value is invariant under the colour flip;                                              *)
(*  - Draws!CountRepetitionsSpec agrees with the rule-level RepetitionDraw on consistent histories.        *)
EXTENDS SearchRef, San, TLC

P(f) == PosOfFen(f)
SanOf(f, u) == LET p == P(f) L == Legal(p) IN San(p, L, CHOOSE m \in L : Uci(m) = u)

SanCases == <<
  <<"rnbqkbnr/pppppppp/8/8/8/8/PPPPPPPP/RNBQKBNR w KQkq - 0 1", "e2e4", "e4">>,
  <<"rnbqkbnr/pppppppp/8/8/8/8/PPPPPPPP/RNBQKBNR w KQkq - 0 1", "g1f3", "Nf3">>,
  <<"r3k2r/8/8/8/8/8/8/R3K2R w KQkq - 0 1", "e1g1", "O-O">>,
  <<"r3k2r/8/8/8/8/8/8/R3K2R w KQkq - 0 1", "e1c1", "O-O-O">>,
  <<"r3k2r/8/8/8/8/8/8/R3K2R w KQkq - 0 1", "a1a8", "Rxa8+">>,
  <<"r3k2r/8/8/8/8/8/8/R3K2R b KQkq - 0 1", "e8g8", "O-O">>,
  <<"4k3/8/8/8/8/5N2/8/1N2K3 w - - 0 1", "b1d2", "Nbd2">>,
  <<"4k3/8/8/8/8/5N2/8/1N2K3 w - - 0 1", "f3d2", "Nfd2">>,
  <<"4k3/8/8/R7/8/8/8/R3K3 w - - 0 1", "a1a3", "R1a3">>,
  <<"4k3/8/8/R7/8/8/8/R3K3 w - - 0 1", "a5a3", "R5a3">>,
  <<"3q4/2P5/8/8/4Q2Q/k7/8/K6Q w - - 0 1", "h4e1", "Qh4e1">>,
  <<"3q4/2P5/8/8/4Q2Q/k7/8/K6Q w - - 0 1", "c7d8q", "cxd8=Q">>,
  <<"3q4/2P5/8/8/4Q2Q/k7/8/K6Q w - - 0 1", "c7c8n", "c8=N">>,
  <<"7k/8/6K1/8/8/8/8/5Q2 w - - 0 1", "f1f7", "Qf7">>,
  <<"7k/8/6K1/8/8/8/8/5Q2 w - - 0 1", "f1f8", "Qf8#">>,
  <<"rnbqkbnr/ppp1p1pp/8/3pPp2/8/8/PPPP1PPP/RNBQKBNR w KQkq f6 0 3", "e5f6", "exf6">>,
  <<"4k3/8/8/8/1b6/8/3N4/1N2K3 w - - 0 1", "b1c3", "Nc3">>,
  <<"6k1/5ppp/8/8/8/8/8/R3K3 w - - 0 1", "a1a8", "Ra8#">>,
  <<"4k3/8/8/8/8/8/8/R3K2R w KQ - 0 1", "e1d2", "Kd2">> >>
ASSUME \A i \in 1 .. Len(SanCases) :
  LET c == SanCases[i] got == SanOf(c[1], c[2])
  IN got = c[3] \/ (PrintT(<<"SAN MISMATCH", c, got>>) /\ FALSE)
\* the knight on d2 is pinned: only the other knight can go to c3, so no disambiguator (legal moves only) -- checked above ("Nc3")

\* stand-in evaluation: material balance, white-centric
Val == <<100, 320, 330, 500, 900, 0, -100, -320, -330, -500, -900, 0>>
Material(p) == LET RECURSIVE S(_) S(q) == IF q = 64 THEN 0 ELSE (IF p.bd[q] = 0 THEN 0 ELSE Val[p.bd[q]]) + S(q + 1) IN S(0)
TableFor(p, d) == LET K == Keys(p, d) IN [f |-> [k \in K |-> Material(PosOfFen(k \o " 0 1"))], d |-> K]

Small == <<"8/8/8/4k3/8/8/3Q4/4K3 w - - 0 1", "kbK5/pp6/1P6/8/8/8/8/R7 w - - 0 1", "8/P6k/8/8/8/8/p6K/8 w - - 0 1",
           "4k3/8/8/pP6/8/8/8/4K3 w - a6 0 1", "3r1r2/4P3/8/8/8/8/k7/4K3 w - - 0 1", "6k1/8/8/8/7b/8/5Q2/4K3 w - - 0 1",
           "4k3/8/8/3p4/4P3/8/8/4K3 w - - 0 1", "r3k3/8/8/8/8/8/8/4K2R w K - 0 1">>
ASSUME \A i \in 1 .. Len(Small) : \A d \in 1 .. 2 :
  LET p == P(Small[i])
      T == TableFor(p, d)
      plain == RootPlain(T, p, d, {})
      ab == RootAB(T, p, d, {})
      fl == Flip(p)
      TF == TableFor(fl, d)
  IN \/ (/\ ab = plain[1]
         /\ \A u \in plain[2] : AttainsAB(T, p, d, u, ab)
         /\ RootPlain([f |-> [k \in TF.d |-> -Material(Flip(PosOfFen(k \o " 0 1")))], d |-> TF.d], fl, d, {})[1] = plain[1])
     \/ (PrintT(<<"REFERENCE FORMS DISAGREE", Small[i], d, plain, ab>>) /\ FALSE)
ASSUME \A i \in 1 .. Len(Small) :
  LET p == P(Small[i]) T == TableFor(p, 0)
  IN QAB(T, p, -Inf, Inf) = QFull(T, p) \/ (PrintT(<<"QUIESCENCE FORMS DISAGREE", Small[i]>>) /\ FALSE)

\* repetition counter contract vs the rule on a real shuttle history (knights out and back twice: third occurrence)
Shuttle == <<"g1f3", "g8f6", "f3g1", "f6g8", "g1f3", "g8f6", "f3g1", "f6g8">>
RECURSIVE Hist(_, _, _)
Hist(p, line, i) == IF i > Len(line) THEN <<p>>
                    ELSE <<p>> \o Hist(Apply(p, CHOOSE m \in Legal(p) : Uci(m) = line[i]), line, i + 1)
H == Hist(P("rnbqkbnr/pppppppp/8/8/8/8/PPPPPPPP/RNBQKBNR w KQkq - 0 1"), Shuttle, 1)
ASSUME \A n \in 1 .. Len(H) :
  LET h == SubSeq(H, 1, n)
      keys == [i \in 0 .. n - 1 |-> ZKey(h[i + 1])]
  IN RepetitionDraw(h) <=> (CountRepetitionsSpec(keys, n - 1, h[n].hmc) >= 3)
ASSUME RepetitionDraw(H) /\ ~RepetitionDraw(SubSeq(H, 1, 8))

VARIABLE x
Init == x = 0
Next == UNCHANGED x
=============================================================================

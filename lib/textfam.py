"""Text-format properties decided by classifier specifications: C12 (FEN), C15 (UCI command grammar), C19 (Lichess
JSON), C17 (PGN reader).  Inputs are rendered by the specification (TLC) and mutated mechanically; every string is
one TLC step that classifies it (must accept with value / must reject / don't care) and compares the observation."""
import json
import os
import random
import time

from common import (SPEC, NCPU, Outcome, ToolError, log, pmap, read_ndjson, run_harness, run_tlc, seed, shard,
                    validate_trace, workdir, write_evidence)
from boardfam import corpus
from findings import matcher_for


def tlc_gen(module, wd, env, tag, extra=()):
    out = os.path.join(wd, tag + "_out.json")
    e = dict(env)
    e["OUT"] = out
    swd = os.path.join(wd, tag + "_tlc")
    os.makedirs(swd, exist_ok=True)
    info = run_tlc(os.path.join(SPEC, module + ".tla"), os.path.join(SPEC, module + ".cfg"), swd, env=e, timeout=1800, extra=list(extra))
    if info["rc"] != 0 or not os.path.exists(out):
        raise ToolError("%s failed:\n%s" % (module, info["out"][-2000:]))
    return json.load(open(out)), info


def run_text_check(prop, tier, family, module, cases, wd, t0, rule, assumptions, level="exploration", extra_cov=None, nshards=None,
                   weight=lambda c: 1, harness_extra=()):
    outcome = Outcome(prop)
    shards = shard(cases, nshards or NCPU, weight)

    def one(i):
        tr = run_harness(family, shards[i], wd, "s%d" % i, prop, extra=harness_extra)
        res, info = validate_trace(module + ".tla", module + ".cfg", tr, wd, "s%d" % i)
        return tr, res, info

    results = pmap(one, list(range(len(shards))))
    by_id = {c["id"]: c for c in cases}
    states = trans = evals = 0
    nt = set()
    bad = set()
    ncls = {}
    samples = []
    for tr, res, info in results:
        states += info["distinct"]
        trans += info["generated"]
        evs = read_ndjson(tr)
        evals += len(evs)
        for i in res.get("ntr", []):
            e = evs[i - 1]
            nt.add(json.dumps(by_id.get(e["c"], {}).get("key", e.get("s", e["c"])), sort_keys=True))
        for k, v in (res.get("ncls") or {}).items():
            ncls[k] = ncls.get(k, 0) + v
        for note in res["bad"]:
            bad.add(note["c"])
            outcome.add(by_id.get(note["c"], {"id": note["c"]}), note, matcher_for(prop))
        if len(samples) < 3 and evs:
            samples.append({k: (v if len(json.dumps(v)) < 400 else json.dumps(v)[:400] + "...") for k, v in evs[len(evs) // 2].items()})
    cov = {"evaluations": evals, "distinct_nontrivial": len(nt), "rule": rule, "samples": samples,
           "states": states, "transitions": trans, "traces_validated_against_impl": len(cases) - len(bad),
           "classified": ncls, "exhaustive": False,
           "checker_cmd": "java ... tlc2.TLC -workers 1 -config spec/%s.cfg spec/%s.tla per trace shard" % (module, module)}
    if extra_cov:
        cov.update(extra_cov)
    rc = outcome.finish()
    write_evidence(prop, tier, level, cov, time.time() - t0, len(outcome.violations), assumptions)
    return rc


# --------------------------------------------------------------------------- C12
FEN_ALPHABET = list("PNBRQKpnbrqk/12345678 90wb-ahxKQ")
CLOCKS = ["0", "1", "7", "99", "100", "4095", "65535", "2147483647", "4294967295", "4294967296", "1000000000000", "1" + "0" * 30,
          "007", "00", "-1", "+5", "1.5", "٣", "１２"]


def mutate(rng, s):
    k = rng.choice([0, 1, 2, 3, 4, 5, 6, 6, 6, 7, 8, 9, 10])
    if not s:
        return "x"
    i = rng.randrange(len(s))
    if k == 0:
        return s[:i] + s[i + 1:]
    if k == 1:
        return s[:i] + rng.choice(FEN_ALPHABET) + s[i:]
    if k == 2:
        if rng.random() < 0.2:
            return s[:i] + chr(ord(s[i]) + 256 * rng.choice([1, 2, 3])) + s[i + 1:]       # non-ASCII alias of the character
        return s[:i] + rng.choice(FEN_ALPHABET) + s[i + 1:]
    f = s.split(" ")
    if k == 3 and len(f) > 1:
        j = rng.randrange(len(f))
        return " ".join(f[:j] + [f[j], f[j]] + f[j + 1:])
    if k == 4 and len(f) > 1:
        j = rng.randrange(len(f))
        return " ".join(f[:j] + f[j + 1:])
    if k == 5 and len(f) > 1:
        a, b = rng.sample(range(len(f)), 2)
        f[a], f[b] = f[b], f[a]
        return " ".join(f)
    ranks = f[0].split("/")
    j = rng.randrange(len(ranks))
    if k == 6:
        # split one run of empty squares into two adjacent digits (sum preserved) at whatever offset it stands
        idx = [i for i, c in enumerate(ranks[j]) if c in "2345678"]
        if idx:
            i = rng.choice(idx)
            d = int(ranks[j][i])
            a = rng.randrange(1, d)
            ranks[j] = ranks[j][:i] + str(a) + str(d - a) + ranks[j][i + 1:]
        else:
            ranks[j] = ranks[j] + "1"
    elif k == 7:
        ranks[j] = ranks[j][:-1] if len(ranks[j]) > 1 else "7"
    elif k == 8:
        ranks[j] = ranks[j] + rng.choice("Pp1")
    elif k == 9:
        ranks = ranks[:j] + ranks[j + 1:] if rng.random() < 0.5 else ranks[:j] + [ranks[j]] + ranks[j:]
    else:
        return s.replace(" ", "  ", 1) if rng.random() < 0.5 else " " + s
    return " ".join(["/".join(ranks)] + f[1:])


def check_c12(tier, replay=None):
    t0 = time.time()
    T = tier == "thorough"
    wd = workdir("C12")
    rng = random.Random("C12-%d" % seed())
    cases = []

    def add(s, why):
        cases.append({"id": len(cases) + 1, "family": "fen", "s": s, "why": why, "key": s})

    if replay:
        c = json.load(open(replay))
        add(c["s"], "replay")
    else:
        roots = corpus(wd)
        rp = os.path.join(wd, "roots.ndjson")
        with open(rp, "w") as f:
            for r in roots:
                f.write(json.dumps({"fen": r["fen"]}) + "\n")
        gen, _ = tlc_gen("FenGen", wd, {"ROOTS": rp}, "fengen")
        four = sorted({x for lst in gen for x in lst})
        valid = []
        for f4 in (four if T else rng.sample(four, min(len(four), 500))):
            add(f4, "four-field FEN rendered by the specification")
            for _ in range(4 if T else 2):
                s = "%s %s %s" % (f4, rng.choice(CLOCKS[:12]), rng.choice(CLOCKS[1:12]))
                add(s, "six-field FEN rendered by the specification, clock magnitudes up to 10^30")
                valid.append(s)
            add("%s %s %s" % (f4, rng.choice(CLOCKS), rng.choice(CLOCKS)), "clock fields incl. leading zeros, signs, non-ASCII digits")
        for _ in range(120000 if T else 3500):
            add(mutate(rng, rng.choice(valid)), "single-fault mutation of a valid FEN")
        for _ in range(10000 if T else 600):
            k = rng.randrange(4)
            if k == 0:
                s = "".join(rng.choice(FEN_ALPHABET) for _ in range(rng.randrange(0, 80)))
            elif k == 1:
                s = bytes(rng.randrange(256) for _ in range(rng.randrange(0, 60))).decode("utf-8", "replace")
            elif k == 2:
                s = rng.choice(valid) * rng.randrange(2, 12)
            else:
                s = "".join(chr(rng.choice([rng.randrange(32, 127), rng.randrange(0x80, 0x800), rng.randrange(0x4e00, 0x4f00), 0x1F600])) for _ in range(rng.randrange(1, 40)))
            add(s.replace("\x00", "0"), "arbitrary string")
        for s in ["", " ", "startpos", "8/8/8/8/8/8/8/8 w - - 0 1", "8/8/8/8/8/8/8/8 w - -", "rnbqkbnr/pppppppp/8/8/8/8/PPPPPPPP/RNBQKBNR w KQkq - 0 1\n"]:
            add(s, "edge case")
    log("C12: %d strings" % len(cases))
    rule = ("strings = FEN texts rendered by the specification (FenGen.tla: every root of the TLC-checked corpus x every castling-right set its "
            "placement allows x with/without e.p.) in four- and six-field form with clocks from 0 to 10^30, single-fault mutations of those "
            "(delete/insert/replace a character, duplicate/drop/swap a field, rank sums 7/9, adjacent digits, doubled spaces) and arbitrary "
            "strings incl. non-ASCII. Each is one TLC step: FenClass classifies, ParseFen decodes, result compared field by field. "
            "distinct_nontrivial = distinct strings classified must-accept or must-reject (don't-care strings only need 'no panic' and "
            "agreement of the decodings when both sides accept)")
    return run_text_check("C12", tier, "fen", "FenTrace", cases, wd, t0, rule,
                          ["the harness reads the decoded board through the public accessors and copies it to JSON",
                           "don't-care class per DESIGN.md Appendix B.2 (castling letters out of order, e.p. rank, leading zeros, 'startpos', ill-formed positions, clocks of ten or more digits)"])


# --------------------------------------------------------------------------- C15
GO_NUM = ["wtime", "btime", "winc", "binc", "movestogo", "depth", "nodes", "mate", "movetime"]
NUMS = ["0", "1", "2", "10", "300", "60000", "2147483648", "9223372036854775807", "007"]
SQ = [f + r for r in "12345678" for f in "abcdefgh"]


def rand_move(rng):
    return rng.choice(SQ) + rng.choice(SQ) + rng.choice(["", "", "", "q", "r", "b", "n"])


def spaced(rng, toks, messy):
    if not toks:
        return ""
    if not messy:
        return " ".join(toks)
    s = (" " * rng.randrange(3)) + toks[0]
    for t in toks[1:]:
        s += " " * rng.randrange(1, 4) + t
    return s + rng.choice(["", " ", "  ", "\n", "\r\n", " \n"])


def gen_go(rng):
    keys = rng.sample(GO_NUM + ["searchmoves", "ponder", "infinite"], rng.randrange(0, 7))
    toks = ["go"]
    for k in keys:
        toks.append(k)
        if k in GO_NUM:
            toks.append(rng.choice(NUMS))
        elif k == "searchmoves":
            toks += [rand_move(rng) for _ in range(rng.randrange(1, 5))]
    return toks


def gen_line(rng, fens):
    k = rng.randrange(12)
    if k == 0:
        return [rng.choice(["uci", "isready", "ucinewgame", "stop", "ponderhit", "quit"])]
    if k == 1:
        return ["debug", rng.choice(["on", "off"])]
    if k == 2:
        name = [rng.choice(["Hash", "Nalimov", "Path", "Clear", "UCI_Elo", "Style"]) for _ in range(rng.randrange(1, 4))]
        toks = ["setoption", "name"] + name
        if rng.random() < 0.6:
            toks += ["value"] + [rng.choice(["32", "true", "c:\\tb", "Risky", "a", "b"]) for _ in range(rng.randrange(1, 4))]
        return toks
    if k == 3:
        if rng.random() < 0.3:
            return ["register", "later"]
        return ["register", "name"] + [rng.choice(["Stefan", "MK", "x"]) for _ in range(rng.randrange(1, 3))] + ["code"] + [rng.choice(["4359874324", "abc", "7"]) for _ in range(rng.randrange(1, 3))]
    if k in (4, 5, 6):
        toks = ["position"]
        if rng.random() < 0.4:
            toks.append("startpos")
        else:
            toks += ["fen"] + rng.choice(fens).split(" ")
        if rng.random() < 0.7:
            n = rng.choice([0, 1, 2, 5, 40, 300])
            toks += ["moves"] + [rand_move(rng) for _ in range(n)]
        return toks
    return gen_go(rng)


def mutate_tokens(rng, toks):
    toks = list(toks)
    k = rng.randrange(12)
    i = rng.randrange(len(toks))
    if k == 0:
        toks[0] = rng.choice(["UCI", "Go", "xyz", "positon", "go!", "isReady", ""])
    elif k == 1 and len(toks) > 1:
        del toks[i]
    elif k == 2:
        toks.insert(i, rng.choice(["foo", "depth", "moves", "value", "-1", "e2e4", "name", "wtime"]))
    elif k == 3:
        toks[i] = rng.choice(["abc", "1e3", "99999999999999999999999", "-5", "+5", "1.0", "", "٣"])
    elif k == 4:
        toks[i] = rng.choice(["e2e9", "i2e4", "e2e", "e2e4qq", "E2E4", "A1a2", "1234", "e2e4k", "e7e8Q", "é2e4", "0000"])
    elif k == 5 and toks[0] == "go":
        toks += [rng.choice(GO_NUM), rng.choice(NUMS)] if rng.random() < 0.5 else [toks[1]] if len(toks) > 1 else ["depth"]
    elif k == 6:
        toks = toks[:i]
    elif k == 7:
        toks[i] = toks[i].upper()
    elif k == 8:
        toks[i] = toks[i] + "\t" + "x"
    elif k == 9 and "moves" in toks:
        toks.remove("moves")
    elif k == 10:
        toks = toks + toks[1:]
    else:
        a, b = rng.randrange(len(toks)), rng.randrange(len(toks))
        toks[a], toks[b] = toks[b], toks[a]
    return [t for t in toks]


def check_c15(tier, replay=None):
    t0 = time.time()
    T = tier == "thorough"
    wd = workdir("C15")
    rng = random.Random("C15-%d" % seed())
    cases = []

    def add(k, s, why):
        cases.append({"id": len(cases) + 1, "family": "uci", "k": k, "s": s, "why": why, "key": [k, s]})

    if replay:
        c = json.load(open(replay))
        add(c["k"], c["s"], "replay")
    else:
        roots = corpus(wd)
        fens = [r["fen"] for r in roots] + [" ".join(r["fen"].split(" ")[:4]) for r in roots[:40]]
        good = []
        for _ in range(30000 if T else 2500):
            toks = gen_line(rng, fens)
            good.append(toks)
            add("line", spaced(rng, toks, rng.random() < 0.5), "line generated from the grammar")
        for _ in range(30000 if T else 2500):
            add("line", spaced(rng, mutate_tokens(rng, rng.choice(good)), rng.random() < 0.3), "token-level mutation")
        for _ in range(10000 if T else 600):
            k = rng.randrange(3)
            if k == 0:
                s = bytes(rng.randrange(256) for _ in range(rng.randrange(0, 50))).decode("utf-8", "replace").replace("\x00", " ")
            elif k == 1:
                s = " ".join(rng.choice(["go", "position", "fen", "moves", "depth", "e2e4", "startpos", "name", "value", "x" * 200, "9" * 40]) for _ in range(rng.randrange(1, 30)))
            else:
                s = "".join(chr(rng.choice([rng.randrange(32, 127), rng.randrange(0xA1, 0x800), 0x1F600])) for _ in range(rng.randrange(1, 40)))
            add("line", s, "arbitrary string")
        # position commands whose FEN carries one fault (the FEN mutator of C12: digit splits at any offset, bad fields, alias characters ...)
        for _ in range(6000 if T else 700):
            bad = mutate(rng, rng.choice(fens))
            tail = rng.choice(["", "", " moves", " moves e2e4", " moves e7e5 g1f3"])
            add("line", "position fen " + bad + tail, "position command with a single-fault FEN")
        for s in ["", " ", "\n", "go", "go searchmoves", "position", "position fen", "position startpos moves", "setoption", "setoption name", "debug", "register",
                  "register name a", "setoption name x value", "go depth", "go depth 3 depth 4", "go wtime -100", "position startpos e2e4", "go ponder infinite",
                  "position fen startpos", "uci uci"]:
            add("line", s, "edge case")
        # move text: the full 64 x 64 x {none,q,r,b,n,k} space, plus malformed texts
        for f in SQ:
            for t in SQ:
                for p in ["", "q", "r", "b", "n", "k"]:
                    add("move", f + t + p, "move text space")
        # characters whose code point is an ASCII move character plus a multiple of 256 (what a narrowing cast would alias)
        for _ in range(3000 if T else 400):
            m = rng.choice(SQ) + rng.choice(SQ) + rng.choice(["", "q", "n"])
            i = rng.randrange(len(m))
            add("move", m[:i] + chr(ord(m[i]) + 256 * rng.choice([1, 1, 2, 3, 16, 255])) + m[i + 1:], "move text with a non-ASCII alias of a valid character")
        for _ in range(300 if T else 60):
            m = rng.choice(SQ) + rng.choice(SQ)
            i = rng.randrange(4)
            alias = m[:i] + chr(ord(m[i]) + 256 * rng.choice([1, 2, 3])) + m[i + 1:]
            add("line", rng.choice(["position startpos moves e2e4 %s", "go depth 2 searchmoves %s", "go searchmoves d2d4 %s wtime 100"]) % alias, "command with an alias move text")
        for s in ["", "e2", "e2e", "e2e4qq", "e2e4x", "E2E4", "A1a2", "1234", "a0a1", "a9a1", "i1a1", "e2e4 ", " e2e4", "é2e4", "e2e4Q", "h1a1P", "e2-e4", "0000", "e2e4q!", "aaaa", "1111"]:
            add("move", s, "malformed move text")
        cases.append({"id": len(cases) + 1, "family": "uci", "k": "fmt_all", "s": "", "why": "format then parse every move value", "key": "fmt_all"})
    log("C15: %d cases" % len(cases))
    rule = ("lines generated from the UCI grammar (11 commands, go with random parameter subsets/orders/values up to 2^63-1, position startpos|fen with "
            "0..300 moves, setoption/register with multi-word fields, 1-3 spaces, leading/trailing blanks, \\n and \\r\\n), token-level mutations of "
            "those, arbitrary strings; all 64x64x6 move texts plus malformed ones; all 20,480 move values formatted and parsed back. Each is one "
            "TLC step: UciGrammar!ParseCommand classifies the line and computes the command value it spells, which is compared with the "
            "parser's result. distinct_nontrivial = distinct inputs classified must-accept or must-reject")
    return run_text_check("C15", tier, "uci", "UciTrace", cases, wd, t0, rule,
                          ["the harness projects UciCommand to JSON field by field (durations as milliseconds, numbers as decimal strings)",
                           "don't-care class per DESIGN.md Appendix B.3/B.4 (tabs as separators, extra tokens after complete commands, signed numbers, numbers above 2^63-1, fifth move letter k/p/upper case)"],
                          weight=lambda c: 20480 if c["k"] == "fmt_all" else 1 + len(c["s"]) // 50)


# --------------------------------------------------------------------------- C19
NUMERIC = {"wtime", "btime", "winc", "binc", "createdAt", "rating", "aiLevel", "initial", "increment", "daysPerTurn", "claimWinInSeconds",
           "id#status", "ratingDiff", "ai", "secondsLeft", "limit", "lag"}
BOOLEAN = {"rated", "provisional", "wdraw", "bdraw", "wtakeback", "btakeback", "gone", "hasMoved", "bot", "board", "patron", "online"}
STATUS = ["created", "started", "aborted", "mate", "resign", "stalemate", "timeout", "draw", "outoftime", "cheat", "noStart", "unknownFinish", "variantEnd"]
VARIANTS = ["standard", "crazyhouse", "chess960", "fromPosition", "kingOfTheHill", "threeCheck", "antichess", "atomic", "horde", "racingKings"]
SPEEDS = ["ultraBullet", "bullet", "blitz", "rapid", "classical", "correspondence"]
PERFS = SPEEDS + ["standard", "chess960", "kingOfTheHill", "antichess", "atomic", "threeCheck", "racingKings", "crazyhouse", "puzzle"]
SOURCES = ["lobby", "friend", "ai", "api", "arena", "position", "import", "importlive", "simul", "relay", "pool", "swiss"]
TEXTS = ["thibault", "Good luck, have fun", 'he said "hi"', "back\\slash", "tab\there", "naïve ♞ 🙂", "a/b", "", "line\nbreak", "x" * 200]


def encode_doc(msg, rng, null_for_none=False):
    """environment model: abstract message -> JSON text in the Lichess layout"""
    root = {}
    for k, v in msg.items():
        if v == "none":
            parent = k.rsplit(".", 1)[0] + "." if "." in k else ""
            siblings = [kk for kk, vv in msg.items() if kk != k and kk.startswith(parent) and "." not in kk[len(parent):] and vv != "none"]
            if null_for_none and k.split(".")[-1] in ("title", "winner", "rematch", "tournamentId") and siblings:
                v = None
            else:
                continue
        parts = k.split(".")
        leaf = parts[-1]
        tkey = "id#status" if k.endswith("status.id") else leaf
        if v is not None:
            if tkey in NUMERIC:
                v = int(v)
            elif leaf in BOOLEAN:
                v = v == "true"
        d = root
        for p in parts[:-1]:
            d = d.setdefault(p, {})
        d[leaf] = v
    if msg["type"] == "gameFull":
        root["state"]["type"] = "gameState"      # lila nests the state with its own type tag
    return json.dumps(root, ensure_ascii=rng.random() < 0.5)


def opt(rng, v, p=0.5):
    return v if rng.random() < p else "none"


def gen_state(rng, games, prefix):
    g = rng.choice(games)
    n = rng.choice([0, 0, 1, 2, 5, 30, len(g)])
    st = {"moves": " ".join(g[:n]), "wtime": str(rng.choice([0, 1, 7598040, 2147483647])), "btime": str(rng.choice([0, 59000, 8395220])),
          "winc": str(rng.choice([0, 10000])), "binc": str(rng.choice([0, 2000])), "status": rng.choice(STATUS),
          "wdraw": opt(rng, rng.choice(["true", "false"])), "bdraw": opt(rng, rng.choice(["true", "false"])),
          "wtakeback": opt(rng, rng.choice(["true", "false"])), "btakeback": opt(rng, rng.choice(["true", "false"])),
          "winner": opt(rng, rng.choice(["white", "black"]), 0.3), "rematch": opt(rng, "Xyz12abc", 0.2)}
    return {prefix + k: v for k, v in st.items()}


def gen_player(rng, prefix):
    return {prefix + "id": rng.choice(["lovlas", "leela", "inkayaku-bot"]), prefix + "aiLevel": opt(rng, str(rng.randrange(1, 9)), 0.2),
            prefix + "name": opt(rng, rng.choice(TEXTS[:3] + ["Lovlas"])), prefix + "title": opt(rng, rng.choice(["IM", "BOT", "GM"])),
            prefix + "rating": opt(rng, str(rng.choice([800, 1500, 2500, 3300]))), prefix + "provisional": opt(rng, rng.choice(["true", "false"]))}


def gen_user(rng, prefix, present):
    keys = ["id", "name", "title", "rating", "provisional", "patron", "online", "lag"]
    if not present:
        return {prefix + k: "none" for k in keys}
    return {prefix + "id": "lovlas", prefix + "name": rng.choice(["Lovlas", "thibot"]), prefix + "title": opt(rng, "IM"), prefix + "rating": str(rng.choice([1500, 2506])),
            prefix + "provisional": opt(rng, "true"), prefix + "patron": opt(rng, "false"), prefix + "online": opt(rng, "true"), prefix + "lag": opt(rng, str(rng.randrange(0, 9)))}


def gen_msg(rng, games, ty):
    m = {"type": ty}
    if ty == "gameFull":
        m.update({"id": "5IrD6Gzz", "variant.key": rng.choice(VARIANTS), "variant.name": "Standard", "variant.short": "Std", "speed": rng.choice(SPEEDS),
                  "perf.name": rng.choice(["Classical", "Blitz"]), "rated": rng.choice(["true", "false"]), "createdAt": str(rng.choice([0, 1523825103562, 1700000000000])),
                  "initialFen": rng.choice(["startpos", "rnbqkbnr/pppppppp/8/8/8/8/PPPPPPPP/RNBQKBNR w KQkq - 0 1"]),
                  "daysPerTurn": opt(rng, str(rng.randrange(1, 15)), 0.2), "tournamentId": opt(rng, "abc12345", 0.2)})
        if rng.random() < 0.6:
            m.update({"clock.initial": str(rng.choice([0, 60000, 1200000])), "clock.increment": str(rng.choice([0, 10000]))})
        else:
            m.update({"clock.initial": "none", "clock.increment": "none"})
        m.update(gen_player(rng, "white."))
        m.update(gen_player(rng, "black."))
        m.update(gen_state(rng, games, "state."))
    elif ty == "gameState":
        m.update(gen_state(rng, games, ""))
    elif ty == "chatLine":
        m.update({"room": rng.choice(["player", "spectator"]), "username": rng.choice(TEXTS[:4] + ["lichess"]), "text": rng.choice(TEXTS)})
    elif ty == "opponentGone":
        m.update({"gone": rng.choice(["true", "false"]), "claimWinInSeconds": opt(rng, str(rng.choice([0, 8, 30])), 0.7)})
    elif ty in ("gameStart", "gameFinish"):
        m.update({"game.fullId": "rCRw1AuOvonq", "game.gameId": "rCRw1AuO", "game.fen": "r1bqkbnr/pppp2pp/2n1pp2/8/8/3PP3/PPPKBPPP/RNBQ2NR w HAkq - 2 5",
                  "game.color": rng.choice(["white", "black"]), "game.lastMove": rng.choice(["b8c6", "", "e7e8q"]), "game.source": rng.choice(SOURCES),
                  "game.status.id": str(rng.choice([20, 30, 31])), "game.status.name": rng.choice(STATUS), "game.variant.key": rng.choice(VARIANTS),
                  "game.variant.name": "Standard", "game.speed": rng.choice(SPEEDS), "game.perf": rng.choice(PERFS), "game.rated": rng.choice(["true", "false"]),
                  "game.hasMoved": rng.choice(["true", "false"]), "game.opponent.id": "philippe", "game.opponent.username": rng.choice(["Philippe", TEXTS[2]]),
                  "game.opponent.rating": opt(rng, "1790"), "game.opponent.ratingDiff": opt(rng, str(rng.choice([-12, 0, 7])), 0.3), "game.opponent.ai": opt(rng, "3", 0.1),
                  "game.secondsLeft": opt(rng, "1209600"), "game.tournamentId": opt(rng, "t1", 0.2), "game.swissId": opt(rng, "s1", 0.2),
                  "game.orientation": opt(rng, rng.choice(["white", "black"]), 0.3), "game.winner": opt(rng, rng.choice(["white", "black"]), 0.3),
                  "game.ratingDiff": opt(rng, str(rng.choice([-8, 0, 11])), 0.3)})
        if rng.random() < 0.6:
            m.update({"game.compat.bot": rng.choice(["true", "false"]), "game.compat.board": rng.choice(["true", "false"])})
        else:
            m.update({"game.compat.bot": "none", "game.compat.board": "none"})
    else:
        tc = rng.choice(["clock", "correspondence", "unlimited"])
        m.update({"challenge.id": "7pGLxJ4F", "challenge.url": "https://lichess.org/VU0nyvsW", "challenge.status": rng.choice(["created", "offline", "canceled", "declined", "accepted"]),
                  "challenge.variant.key": rng.choice(VARIANTS), "challenge.variant.name": "Standard", "challenge.variant.short": "Std",
                  "challenge.rated": rng.choice(["true", "false"]), "challenge.speed": rng.choice(SPEEDS), "challenge.timeControl.type": tc,
                  "challenge.timeControl.limit": str(rng.choice([0, 600])) if tc == "clock" else "none",
                  "challenge.timeControl.increment": str(rng.choice([0, 5])) if tc == "clock" else "none",
                  "challenge.timeControl.show": "10+0" if tc == "clock" else "none",
                  "challenge.timeControl.daysPerTurn": str(rng.randrange(1, 15)) if tc == "correspondence" else "none",
                  "challenge.color": rng.choice(["random", "white", "black"]), "challenge.finalColor": rng.choice(["white", "black"]),
                  "challenge.perf.icon": rng.choice(["", "#"]), "challenge.perf.name": "Rapid", "challenge.rematchOf": opt(rng, "abcd1234", 0.2),
                  "challenge.direction": opt(rng, rng.choice(["in", "out"])), "challenge.initialFen": opt(rng, "startpos", 0.2), "challenge.declineReason": "none"})
        m.update(gen_user(rng, "challenge.challenger.", rng.random() < 0.8))
        m.update(gen_user(rng, "challenge.destUser.", rng.random() < 0.8))
        if ty == "challenge":
            if rng.random() < 0.6:
                m.update({"compat.bot": rng.choice(["true", "false"]), "compat.board": rng.choice(["true", "false"])})
            else:
                m.update({"compat.bot": "none", "compat.board": "none"})
    return m


def legal_games(wd, rng, n, plies):
    """real legal games (UCI move lists) produced by the board itself along random walks"""
    roots = corpus(wd)
    start = [r for r in roots if "start" in r["tags"] and "flipped" not in r["tags"]]
    cases = [{"id": i + 1, "fen": start[0]["fen"], "ops": [{"op": "walk", "plies": plies, "seed": rng.randrange(1 << 30)}]} for i in range(n)]
    tr = run_harness("board", cases, wd, "games", "C19")
    games = {}
    for e in read_ndjson(tr):
        if e["ev"] == "make":
            games.setdefault(e["c"], []).append(e["uci"])
    return list(games.values())


def check_c19(tier, replay=None):
    t0 = time.time()
    T = tier == "thorough"
    wd = workdir("C19")
    rng = random.Random("C19-%d" % seed())
    cases = []

    def add(msg, cls, doc=None, why=""):
        kind = "game" if msg["type"] in ("gameFull", "gameState", "chatLine", "opponentGone") else "event"
        cases.append({"id": len(cases) + 1, "family": "lichess", "kind": kind, "msg": msg, "cls": cls, "doc": doc if doc is not None else encode_doc(msg, rng, rng.random() < 0.3),
                      "why": why, "key": msg})

    if replay:
        c = json.load(open(replay))
        cases.append(dict(c, id=1))
    else:
        games = legal_games(wd, rng, 40 if T else 12, 400 if T else 200) + [[]]
        types = ["gameFull", "gameState", "chatLine", "opponentGone", "gameStart", "gameFinish", "challenge", "challengeCanceled", "challengeDeclined"]
        for _ in range(100000 // 9 if T else 350):
            for ty in types:
                add(gen_msg(rng, games, ty), "std", why="documented shape, random optional subset")
        # every status / variant / speed / source key once per shape that carries it
        for st in STATUS:
            m = gen_msg(rng, games, "gameState"); m["status"] = st; add(m, "std", why="every status key")
        for v in VARIANTS:
            m = gen_msg(rng, games, "gameFull"); m["variant.key"] = v; add(m, "std", why="every variant key")
        for s in SOURCES:
            m = gen_msg(rng, games, "gameStart"); m["game.source"] = s; add(m, "std", why="every source key")
        for p in PERFS:
            m = gen_msg(rng, games, "gameFinish"); m["game.perf"] = p; add(m, "std", why="every perf key")
        # all optional fields absent / all present
        for ty in types:
            m = gen_msg(rng, games, ty)
            add({k: v for k, v in m.items()}, "std", why="as generated")
        # don't-care classes: escapes inside the move string; shapes the model is stricter about than (we believe) the API
        for _ in range(200 if T else 20):
            m = gen_msg(rng, games, "gameState")
            if m["moves"]:
                doc = encode_doc(m, rng).replace(m["moves"], m["moves"].replace("e", "\\u0065", 1), 1)
                add(m, "escape", doc, "move string containing a JSON escape (never sent by Lichess)")
            m = gen_msg(rng, games, "gameFull")
            m2 = dict(m)
            m2["black.id"] = "none"
            m2["black.aiLevel"] = "3"
            add(m2, "uncertain", why="AI player object without id (shape remembered, not re-read)")
    log("C19: %d documents" % len(cases))
    rule = ("documents of the nine documented shapes generated as abstract messages (flat field -> value records with random subsets of the optional fields, "
            "every enumerated key, move lists taken from real legal games of 0..400 plies incl. castling and promotions, strings with quotes, backslashes, "
            "control and non-BMP characters, null for absent nullable fields), encoded to JSON text by the driver's encoder (the environment model), decoded "
            "by the real serde models one document per line; TLC (Lichess.tla) checks the message is a documented shape and compares the decoded value field by "
            "field with what the message carries. distinct_nontrivial = distinct documented-shape messages")
    return run_text_check("C19", tier, "lichess", "LichessTrace", cases, wd, t0, rule,
                          ["field names, optionality and vocabularies are those written in the serde models and remembered from the public Bot API (no network to re-read it)",
                           "the encoder (abstract message -> JSON text) is the trusted environment model",
                           "don't-care: escapes inside moves; AI players without id; declineReason/rules (shape uncertain)"])


# --------------------------------------------------------------------------- C17
CASTLE_FENS = ["r3k2r/pppppppp/8/8/8/8/PPPPPPPP/R3K2R w KQkq - 0 1", "r3k2r/8/8/8/8/8/8/R3K2R w KQkq - 0 1", "r3k2r/8/8/8/8/8/8/R3K2R b KQkq - 0 12",
               "rnbqk2r/pppp1ppp/5n2/2b1p3/2B1P3/5N2/PPPP1PPP/RNBQK2R w KQkq - 4 4", "r3k2r/Pppp1ppp/1b3nbN/nP6/BBP1P3/q4N2/Pp1P2PP/R2Q1RK1 w kq - 0 1"]


CASTLE_CHECK_FENS = ["4k2r/8/8/8/8/8/4P1P1/4NKN1 w k - 0 1", "r3k3/8/8/8/8/8/2P1P3/2NKN3 w q - 0 1",
                     "4nkn1/4p1p1/8/8/8/8/8/4K2R b K - 0 1", "2nkn3/2p1p3/8/8/8/8/8/R3K3 b Q - 0 1",
                     "4k2r/8/8/8/8/8/4P1P1/4NKN1 w k - 0 30", "4nkn1/4p1p1/8/8/8/8/8/4K2R w K - 0 1"]


def check_c17(tier, replay=None):
    t0 = time.time()
    T = tier == "thorough"
    wd = workdir("C17")
    rng = random.Random("C17-%d" % seed())
    # (A) the window model
    minfo = run_tlc(os.path.join(SPEC, "ReaderMC.tla"), os.path.join(SPEC, "ReaderMC.cfg"), wd, workers=4, parallel_gc=True, timeout=1200)
    if minfo["rc"] != 0 or "Error:" in minfo["out"]:
        raise ToolError("ReaderMC does not hold:\n" + minfo["out"][-2000:])
    if replay:
        c = json.load(open(replay))
        specs = [c["spec"]]
        sched = [(c["chunk"], c["frag"])]
    else:
        specs = []
        for _ in range(1200 if T else 36):
            games = []
            for _ in range(rng.choice([1, 1, 2, 3, 4])):
                fen = rng.choice([START_FEN, START_FEN] + CASTLE_FENS)
                if rng.random() < 0.25:
                    # a game that starts late: move numbers of three to five digits in the movetext (250.., 9990.., 65530..)
                    f6 = rng.choice(CASTLE_FENS).split(" ")
                    f6[5] = str(rng.choice([95, 250, 254, 990, 9995, 32760, 65530]))
                    fen = " ".join(f6)
                tags = [["Event", rng.choice(["Rated Blitz game", "Casual game", "?"])], ["Site", "https://lichess.org/" + "".join(rng.choice("abcdefgh12345678") for _ in range(8))],
                        ["White", rng.choice(["alice", "Bob_99", "?"])], ["Black", rng.choice(["carol", "dave"])]]
                res = rng.choice(["1-0", "0-1", "1/2-1/2", "*"])
                tags.append(["Result", res])
                if fen != START_FEN:
                    tags += [["SetUp", "1"], ["FEN", fen]]
                if rng.random() < 0.3:
                    tags = tags[:rng.randrange(1, len(tags))] + ([["FEN", fen], ["SetUp", "1"]] if fen != START_FEN else [])
                    tags = [list(x) for x in dict((a, b) for a, b in tags).items()]
                castle = False
                if rng.random() < 0.3:
                    # castling that gives check (the king it checks is boxed in on the rook's file): `O-O+`, `O-O-O+` as ordinary movetext tokens
                    fen = rng.choice(CASTLE_CHECK_FENS)
                    castle = True
                    tags = [t for t in tags if t[0] not in ("FEN", "SetUp")] + [["SetUp", "1"], ["FEN", fen]]
                games.append({"fen": fen, "plies": rng.choice([0, 1, 2, 7, 20, 40, 80, 120] if T else [0, 1, 2, 7, 20, 40]) if not castle else rng.choice([2, 3, 4, 7]),
                              "tags": tags, "clk": rng.random() < (0.25 if castle else 0.5), "marks": rng.random() < 0.3, "castle": castle, "result": res})
            specs.append({"games": games, "tail": rng.choice(["\n", "\n", "", "\n\n"])})
        sched = None
    # (C) TLC plays legal games and renders the databases
    n = min(NCPU, max(1, len(specs) // 3))
    parts = [specs[i::n] for i in range(n)]

    def gen(i):
        sp = os.path.join(wd, "specs_%d.ndjson" % i)
        with open(sp, "w") as f:
            for s in parts[i]:
                f.write(json.dumps(s) + "\n")
        out, info = tlc_gen("PgnGen", wd, {"SPECS": sp}, "pgngen%d" % i, extra=["-seed", str(seed() * 100 + i)])
        return out, info

    dbs = []
    spec_of = []
    for i, (out, info) in enumerate(pmap(gen, list(range(n)))):
        for j, d in enumerate(out):
            dbs.append(d)
            spec_of.append(parts[i][j])
    dbs_path = os.path.join(wd, "dbs.json")
    json.dump(dbs, open(dbs_path, "w"))
    cases = []
    for tid, d in enumerate(dbs, 1):
        L = len(d["text"])
        runs = sched or ([(c, []) for c in (1, 2, 3, 5, 7, 64, 8192)] +
                         [(rng.choice([2, 3, 5, 7, 64]), [rng.randrange(1, 8) for _ in range(rng.randrange(1, 9))]) for _ in range(3 if T else 2)] +
                         [(8192, [1]), (rng.choice([4, 16]), [1, rng.randrange(1, 20)])])
        for chunk, frag in runs:
            cases.append({"id": len(cases) + 1, "family": "pgn", "text_id": tid, "chunk": chunk, "frag": frag, "spec": spec_of[tid - 1],
                          "key": [d["text"], chunk, frag], "why": "database text x chunk size x read fragmentation"})
    log("C17: %d databases, %d reader runs" % (len(dbs), len(cases)))
    outcome = Outcome("C17")
    shards = shard(cases, NCPU, lambda c: len(dbs[c["text_id"] - 1]["text"]))

    def one(i):
        tr = run_harness("pgn", [{k: v for k, v in c.items() if k not in ("spec", "key")} for c in shards[i]], wd, "s%d" % i, "C17", extra=[dbs_path])
        res, info = validate_trace("PgnTrace.tla", "PgnTrace.cfg", tr, wd, "s%d" % i, env={"DBS": dbs_path})
        return tr, res, info

    results = pmap(one, list(range(len(shards))))
    by_id = {c["id"]: c for c in cases}
    states, trans = minfo["distinct"], minfo["generated"]
    evals = 0
    bad = set()
    nt = set()
    for tr, res, info in results:
        states += info["distinct"]
        trans += info["generated"]
        evs = read_ndjson(tr)
        evals += len(evs)
        for i in res["ntr"]:
            e = evs[i - 1]
            nt.add((e["text_id"], e["chunk"], tuple(e["frag"])))
        for note in res["bad"]:
            bad.add(note["c"])
            outcome.add({k: v for k, v in by_id.get(note["c"], {}).items() if k != "key"}, note, matcher_for("C17"))
    d0 = dbs[0]
    cov = {"states": states, "transitions": trans, "traces_validated_against_impl": len(cases) - len(bad),
           "evaluations": evals, "distinct_nontrivial": len(nt), "model_states": minfo["distinct"], "databases": len(dbs),
           "rule": "model: ReaderMC (refillable window, every source length 0..9, chunk 1..4, every fragmentation). content: TLC (PgnGen.tla) plays random legal games "
                   "(Legal/Apply) from the start position and from castling-rich FENs, writes their SAN (San.tla), and renders 1-4 games per database in the Lichess "
                   "layout (tags, blank line, one-line movetext with move numbers, optional {clock comments} and !? marks, every result token, three kinds of file "
                   "end); each database is read with chunk sizes 1,2,3,5,7,64,8192 and fragmented readers; TLC re-renders the collection and compares every yielded "
                   "item (tags as map, moves and comments in order) and the final FEN of replaying the yielded SAN. distinct_nontrivial = distinct (text, chunk, "
                   "fragmentation) runs on databases with more than one game or with a castling move",
           "samples": [{"text": d0["text"][:600], "chunk": cases[0]["chunk"], "frag": cases[0]["frag"]}], "exhaustive": False,
           "checker_cmd": "tlc -config spec/ReaderMC.cfg spec/ReaderMC.tla; java ... tlc2.TLC -config spec/PgnGen.cfg spec/PgnGen.tla; java ... tlc2.TLC -config spec/PgnTrace.cfg spec/PgnTrace.tla"}
    rc = outcome.finish()
    write_evidence("C17", tier, "model_checking", cov, time.time() - t0, len(outcome.violations),
                   ["Lichess export layout per DESIGN.md Appendix B.9 (tag values without escapes, comments without nested braces or newlines)",
                    "the Read adaptor returns at most the scheduled number of bytes per call and never 0 before the end",
                    "ReaderMC is a model of the window logic; the fragmented runs are what binds it to the code"])
    return rc


START_FEN = "rnbqkbnr/pppppppp/8/8/8/8/PPPPPPPP/RNBQKBNR w KQkq - 0 1"

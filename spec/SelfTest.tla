------------------------------ MODULE SelfTest ------------------------------
(* Ground truth that does not come from inkayaku: published perft numbers, FEN round trips, flip involution. *)
EXTENDS Fen, TLC

StartFen == "rnbqkbnr/pppppppp/8/8/8/8/PPPPPPPP/RNBQKBNR w KQkq - 0 1"
Kiwipete == "r3k2r/p1ppqpb1/bn2pnp1/3PN3/1p2P3/2N2Q1p/PPPBBPPP/R3K2R w KQkq - 0 1"
Pos3 == "8/2p5/3p4/KP5r/1R3p1k/8/4P1P1/8 w - - 0 1"
Pos4 == "r3k2r/Pppp1ppp/1b3nbN/nP6/BBP1P3/q4N2/Pp1P2PP/R2Q1RK1 w kq - 0 1"
Pos4m == "r2q1rk1/pP1p2pp/Q4n2/bbp1p3/Np6/1B3NBn/pPPP1PPP/R3K2R b KQ - 0 1"
Pos5 == "rnbq1k1r/pp1Pbppp/2p5/8/2B5/8/PPP1NnPP/RNBQK2R w KQ - 1 8"
Pos6 == "r4rk1/1pp1qppp/p1np1n2/2b1p1B1/2B1P1b1/P1NP1N2/1PP1QPPP/R4RK1 w - - 0 10"

P(f) == PosOfFen(f)
Tests == <<
  <<StartFen, 1, 20>>, <<StartFen, 2, 400>>, <<StartFen, 3, 8902>>,
  <<Kiwipete, 1, 48>>, <<Kiwipete, 2, 2039>>,
  <<Pos3, 1, 14>>, <<Pos3, 2, 191>>, <<Pos3, 3, 2812>>,
  <<Pos4, 1, 6>>, <<Pos4, 2, 264>>, <<Pos4m, 1, 6>>, <<Pos4m, 2, 264>>,
  <<Pos5, 1, 44>>, <<Pos5, 2, 1486>>,
  <<Pos6, 1, 46>>, <<Pos6, 2, 2079>> >>

ASSUME \A i \in 1 .. Len(Tests) :
  LET t == Tests[i] got == PerftCount(P(t[1]), t[2])
  IN IF got = t[3] THEN TRUE ELSE PrintT(<<"PERFT MISMATCH", t, got>>) /\ FALSE
ASSUME \A f \in {StartFen, Kiwipete, Pos3, Pos4, Pos4m, Pos5, Pos6} :
  /\ ParseFen(f).ok /\ RenderFen(P(f)) = f /\ WellFormed(P(f))
  /\ Flip(Flip(P(f))) = P(f) /\ WellFormed(Flip(P(f)))
ASSUME RenderFen(Flip(P(Pos4))) = Pos4m
ASSUME PerftCount(Flip(P(Kiwipete)), 2) = 2039
ASSUME ~ParseFen("rnbqkbnr/pp1ppppp/44/2p5/4P3/5N2/PPPP1PPP/RNBQKB1R b - - 1 2").ok
ASSUME ~ParseFen("rnbqbnr/pp1ppppp/8/2p5/4P3/5N2/PPPP1PPP/RNBQKB1R b - - 1 2").ok
ASSUME ParseFen("4k3/8/8/8/8/8/8/4K3 w - -").pos.fmn = 1
VARIABLE x
Init == x = 0
Next == UNCHANGED x
=============================================================================

//! `tables` family (C04): dump what the attack-table lookups return (hook H1), as square NAMES.
//!   ikv tables sliders <outdir>            one file per (kind, square): header + one row per subset of the mask
//!   ikv tables leapers <outfile>           4 x 64 rows
//!   ikv tables random <outfile> <n> <seed> n full 64-bit occupancies per slider kind, looked up unmasked
use inkayaku_core::constants::{Direction, Square};
use inkayaku_board::verif::{leaper_lookup, slider_index, slider_lookup, slider_mask, slider_table_len};
use rand::rngs::StdRng;
use rand::{Rng, SeedableRng};
use serde_json::{json, Value};

use crate::util::{guarded, quiet_panics, shift_name, Out};

/// (spec index a1=0.., implementation shift) for the set bits of w, sorted by spec index
fn squares(w: u64) -> Vec<(u32, u32)> {
    let mut v = Vec::new();
    for shift in 0..64u32 {
        if w & (1u64 << shift) != 0 {
            v.push(((7 - shift / 8) * 8 + shift % 8, shift));
        }
    }
    v.sort();
    v
}

fn names(w: u64) -> Value {
    Value::Array(squares(w).into_iter().map(|(_, s)| Value::String(shift_name(s))).collect())
}

fn lookup_row(rook: bool, shift: u32, occ: u64) -> Value {
    let len = slider_table_len(rook, shift);
    let idx = slider_index(rook, shift, occ);
    if idx >= len {
        // the real lookup would index out of range (undefined behaviour / abort): record instead of executing it
        return json!({"idx": idx, "att": [], "st": "index-out-of-range"});
    }
    match guarded(|| slider_lookup(rook, shift, occ)) {
        Ok(a) => json!({"idx": idx, "att": names(a), "st": "ok"}),
        Err(m) => json!({"idx": idx, "att": [], "st": format!("panic: {}", m)}),
    }
}

pub fn run(args: &[String]) -> i32 {
    quiet_panics();
    match args[0].as_str() {
        "sliders" => {
            let dir = &args[1];
            for (rook, kind) in [(true, "R"), (false, "B")] {
                for shift in 0..64u32 {
                    let mask = slider_mask(rook, shift);
                    let msq = squares(mask);
                    let k = msq.len();
                    let mut out = Out::create(&format!("{}/{}_{}.ndjson", dir, kind, shift_name(shift)));
                    out.emit(&json!({"hdr": true, "kind": kind, "sq": shift_name(shift), "mask": names(mask), "len": slider_table_len(rook, shift), "rows": 1u64 << k}));
                    for n in 0..(1u64 << k) {
                        let mut occ = 0u64;
                        for (j, (_, s)) in msq.iter().enumerate() {
                            if n & (1 << j) != 0 {
                                occ |= 1u64 << s;
                            }
                        }
                        let mut row = lookup_row(rook, shift, occ);
                        row["n"] = json!(n);
                        row["sub"] = names(occ);
                        out.emit(&row);
                    }
                }
            }
            0
        }
        "leapers" => {
            let mut out = Out::create(&args[1]);
            for (kind, name) in [(0u8, "K"), (1, "N"), (2, "WP"), (3, "BP")] {
                for shift in 0..64u32 {
                    let r = guarded(|| leaper_lookup(kind, shift));
                    match r {
                        Ok(a) => out.emit(&json!({"kind": name, "sq": shift_name(shift), "att": names(a), "st": "ok"})),
                        Err(m) => out.emit(&json!({"kind": name, "sq": shift_name(shift), "att": [], "st": format!("panic: {}", m)})),
                    }
                }
            }
            0
        }
        "random" => {
            let mut out = Out::create(&args[1]);
            let n: u64 = args[2].parse().unwrap();
            let mut rng = StdRng::seed_from_u64(args[3].parse().unwrap());
            for (rook, kind) in [(true, "R"), (false, "B")] {
                for _ in 0..n {
                    let shift = rng.gen_range(0..64u32);
                    // densities from sparse to full, so that high bits and far blockers both occur
                    let occ: u64 = match rng.gen_range(0..4) { 0 => rng.gen::<u64>() & rng.gen::<u64>() & rng.gen::<u64>(), 1 => rng.gen::<u64>() & rng.gen::<u64>(), 2 => rng.gen(), _ => rng.gen::<u64>() | rng.gen::<u64>() };
                    let mut row = lookup_row(rook, shift, occ);
                    row["kind"] = json!(kind);
                    row["sq"] = json!(shift_name(shift));
                    row["occ"] = names(occ);
                    out.emit(&row);
                }
            }
            0
        }
        "geom" => {
            // the geometry primitives the tables are built from: every square x every named direction
            let mut out = Out::create(&args[1]);
            for (n, sq) in Square::VALUES.iter().enumerate() {
                out.emit(&json!({"k": "index", "n": n, "name": sq.fen}));
                out.emit(&json!({"k": "index", "n": n, "name": Square::from_index(n).map_or("none", |s| s.fen)}));
                out.emit(&json!({"k": "index", "n": n, "name": Square::from_indices(n % 8, n / 8).map_or("none", |s| s.fen)}));
                for d in Direction::CARDINAL_DIRECTIONS.iter().chain(Direction::KNIGHT_DIRECTIONS.iter()) {
                    let to = guarded(|| sq.translate(d).map_or("none".to_string(), |t| t.fen.to_string())).unwrap_or_else(|m| format!("panic: {}", m));
                    out.emit(&json!({"k": "translate", "sq": sq.fen, "df": d.delta_file, "dr": d.delta_rank, "to": to}));
                }
            }
            0
        }
        _ => 2,
    }
}

SPECIFICATION Spec
CONSTANTS
  MaxIter = 3
  PollEvery = 4
  MaxGo = 3
  DevNoUnmake = FALSE
  DevZeroBudget = FALSE
  DevRootRepetition = FALSE
  DevStalePonder = FALSE
  DevPartialIteration = FALSE
INVARIANT TypeOK
INVARIANT BoardRestored
INVARIANT OneAnswer
INVARIANT AnswerLegal
INVARIANT PonderFresh
INVARIANT WholeIterations
PROPERTY Answered
PROPERTY ImplementsObs
CHECK_DEADLOCK FALSE

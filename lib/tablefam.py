"""C18: bounded FIFO map.  (A) HashTableMC: all histories over 4 keys x 2 values x capacities 1..3 (closed state
graph), invariants and the eviction action property; (C) every transition of that graph is printed by TLC as an
operation history and replayed on the real table (hook H4); (B) long random histories; all traces validated by
HashTableTrace.tla."""
import json
import os
import random
import re
import time

from common import (SPEC, NCPU, Outcome, ToolError, log, pmap, read_ndjson, run_harness, run_tlc, seed, shard,
                    validate_trace, workdir, write_evidence)
from findings import matcher_for

KEYPOOL = [0, 1, 2, 3, (1 << 63), (1 << 64) - 1, (1 << 32), (1 << 32) + 1, 0xAAAAAAAAAAAAAAAA, 0x5555555555555555,
           1 << 48, (1 << 48) + 1, 0x0123456789ABCDEF, 0xFEDCBA9876543210, 10_000_000, 20_000_000, 255, 256, 65535, 65536]


def keymap(rng, n):
    ks = rng.sample(KEYPOOL, min(n, len(KEYPOOL)))
    while len(ks) < n:
        x = rng.getrandbits(64)
        if x not in ks:
            ks.append(x)
    return [str(k) for k in ks]


def apalache_inductive(wd):
    """HashTableInd.tla with Apalache (symbolic): the invariant is inductive and the step property holds for arbitrary integer keys /
    values and any table of at most 6 entries; the vacuity guard and the deviation must be refuted.  Returns a summary for the evidence."""
    import shutil
    import subprocess
    exe = shutil.which("apalache-mc")
    if not exe:
        raise ToolError("apalache-mc not found")
    swd = os.path.join(wd, "apalache")
    os.makedirs(swd, exist_ok=True)
    for f in ("HashTable.tla", "HashTableInd.tla"):
        shutil.copy(os.path.join(SPEC, f), swd)
    runs = [("base", "Init0", "IndNext", "IndInv", 0, False), ("inductive step", "IndInit", "IndNext", "IndInv", 1, False),
            ("step property", "IndInit", "IndNext", "StepInv", 1, False), ("vacuity guard", "IndInit", "IndNext", "Small", 0, True),
            ("deviation evict-before-insert", "IndInit", "BadNext", "StepInv", 1, True)]

    def one(r):
        name, init, nxt, inv, length, expect_error = r
        od = os.path.join(swd, "out_" + inv + "_" + nxt + str(length))
        try:
            p = subprocess.run([exe, "check", "--init=" + init, "--next=" + nxt, "--inv=" + inv, "--length=%d" % length, "--out-dir=" + od,
                                "HashTableInd.tla"], cwd=swd, stdout=subprocess.PIPE, stderr=subprocess.STDOUT, text=True, timeout=1500)
        except subprocess.TimeoutExpired:
            raise ToolError("apalache timed out on " + name)
        ok = "EXITCODE: OK" in p.stdout
        err = "violated" in p.stdout and "The outcome is: Error" in p.stdout
        shutil.rmtree(od, ignore_errors=True)
        if not ok and not err:
            raise ToolError("apalache failed on %s:\n%s" % (name, p.stdout[-1500:]))
        if expect_error != err:
            raise ToolError("apalache: %s: expected %s, got %s\n%s" % (name, "a counterexample" if expect_error else "no error", "a counterexample" if err else "no error", p.stdout[-1500:]))
        return {"check": name, "init": init, "next": nxt, "inv": inv, "length": length, "counterexample": err}

    return pmap(one, runs, 5)


def check(tier, replay=None):
    t0 = time.time()
    T = tier == "thorough"
    wd = workdir("C18")
    rng = random.Random("C18-%d" % seed())
    outcome = Outcome("C18")
    mc_states = mc_trans = 0
    cases = []
    if replay:
        c = json.load(open(replay))
        c["id"] = 1
        cases = [c]
    else:
        # (A) design-level model checking
        cfg = os.path.join(SPEC, "HashTableMC.cfg")
        if T:
            cfg = os.path.join(wd, "HashTableMC_T.cfg")
            open(cfg, "w").write(open(os.path.join(SPEC, "HashTableMC.cfg")).read()
                                 .replace("Keys = {1, 2, 3, 4}", "Keys = {1, 2, 3, 4, 5}").replace("Caps = {1, 2, 3}", "Caps = {1, 2, 3, 4}"))
        info = run_tlc(os.path.join(SPEC, "HashTableMC.tla"), cfg, wd, workers=8, parallel_gc=True, extra=["-coverage", "1"], timeout=3000)
        if "Error:" in info["out"] or info["rc"] != 0:
            raise ToolError("HashTableMC does not hold on the design:\n" + info["out"][-3000:])
        mc_states, mc_trans = info["distinct"], info["generated"]
        ind = apalache_inductive(wd)
        # vacuity: every action of Next must have been taken
        zero = re.findall(r"<Action line (\d+).*?>\n\s+line \d+.*?: 0\n", info["out"])
        if zero:
            raise ToolError("HashTableMC: an action was never taken (vacuous model): lines %s" % zero)
        # (C) one history per transition of the state graph
        gcfg = os.path.join(wd, "HashTableGen.cfg")
        open(gcfg, "w").write(open(cfg).read().replace("PRINT = FALSE", "PRINT = TRUE"))
        ginfo = run_tlc(os.path.join(SPEC, "HashTableMC.tla"), gcfg, wd, workers=1, timeout=3000)
        for line in ginfo["out"].splitlines():
            if line.startswith('<<"REPLAY"'):
                js = line[line.index(",") + 1:].strip()
                js = js[:-2].strip()
                h = json.loads(json.loads(js))
                cases.append({"id": len(cases) + 1, "family": "table", "cap": h["cap"], "ops": h["ops"], "why": "transition of the model's state graph"})
        if len(cases) < 1000:
            raise ToolError("history generation produced too few behaviours (%d)" % len(cases))
        ntrans = len(cases)
        for c in cases:
            c["keymap"] = keymap(rng, 5)
        # (B) long random histories over a larger universe
        for _ in range(1500 if T else 30):
            nk = rng.choice([3, 6, 20])
            cap = rng.choice([1, 2, 3, 7, 16])
            ops = []
            for _ in range(2000 if T else 300):
                x = rng.random()
                if x < 0.55:
                    ops.append({"op": "put", "k": rng.randint(1, nk), "v": rng.randint(0, 1000)})
                elif x < 0.97:
                    ops.append({"op": "get", "k": rng.randint(1, nk), "v": 0})
                else:
                    ops.append({"op": "clear", "k": 0, "v": 0})
            cases.append({"id": len(cases) + 1, "family": "table", "cap": cap, "ops": ops, "keymap": keymap(rng, nk), "why": "random history"})
    log("C18: %d histories" % len(cases))
    shards = shard(cases, NCPU, lambda c: len(c["ops"]) + 1)

    def one(i):
        tr = run_harness("table", shards[i], wd, "s%d" % i, "C18")
        res, info = validate_trace("HashTableTrace.tla", "HashTableTrace.cfg", tr, wd, "s%d" % i)
        return tr, res, info

    results = pmap(one, list(range(len(shards))))
    by_id = {c["id"]: c for c in cases}
    states, trans, evals, bad_cases = mc_states, mc_trans, 0, set()
    nt = set()
    samples = []
    for tr, res, info in results:
        states += info["distinct"]
        trans += info["generated"]
        evs = read_ndjson(tr)
        evals += len(evs)
        # distinct non-trivial: the history prefix up to an operation that evicts, re-inserts or looks up a key seen before
        pos = {}
        for i in res["ntr"]:
            e = evs[i - 1]
            nt.add((e["c"], i))
        for note in res["bad"]:
            bad_cases.add(note["c"])
            outcome.add(by_id.get(note["c"], {}), note, matcher_for("C18"))
        if len(samples) < 2:
            c = by_id[evs[0]["c"]]
            samples.append({"case": {"cap": c["cap"], "ops": c["ops"][:8], "keymap": c["keymap"]}, "events": evs[:4]})
    cov = {"states": states, "transitions": trans, "traces_validated_against_impl": len(cases) - len(bad_cases),
           "model_states": mc_states, "model_transitions": mc_trans,
           "evaluations": evals, "distinct_nontrivial": len(nt),
           "rule": "model: all put/get/clear histories over 4 keys x 2 values x capacities 1..3 (5 keys, capacities 1..4 in the thorough tier), closed state graph; "
                   "replay: one history per transition of that graph (TLC prints shortest path + operation), plus random histories over up to 20 keys and "
                   "capacities {1,2,3,7,16} with concrete 64-bit keys incl. 0, 2^63, 2^64-1; every operation is one TLC step of HashTableTrace (result, len, "
                   "fill level, internal queue/map lengths compared). evaluations = operations validated; distinct_nontrivial = distinct (history, position) "
                   "operations that evict, overwrite/re-insert a key stored or evicted/cleared before, or look such a key up",
           "samples": samples, "exhaustive": not replay,
           "inductive_invariant": None if replay else {"module": "HashTableInd.tla", "tool": "apalache-mc 0.58 (symbolic)", "runs": ind,
                                   "meaning": "Inv is inductive and StepInv holds for one step from ANY state satisfying Inv with at most 6 stored entries, arbitrary integer keys/values"},
           "checker_cmd": "tlc -workers 8 -coverage 1 -config spec/HashTableMC.cfg spec/HashTableMC.tla; java ... tlc2.TLC -workers 1 -config spec/HashTableTrace.cfg spec/HashTableTrace.tla"}
    rc = outcome.finish()
    write_evidence("C18", tier, "model_checking", cov, time.time() - t0, len(outcome.violations),
                   ["hook H4 (VerifTable) forwards to the private HashTable without logic of its own",
                    "the harness copies results into JSON faithfully; load_factor is logged as round(lf * 10^6)"])
    return rc

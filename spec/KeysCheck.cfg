INIT Init
NEXT Next
INVARIANT NonZero
INVARIANT AllDistinct
INVARIANT Structure
CHECK_DEADLOCK FALSE

INIT Init
NEXT Next
